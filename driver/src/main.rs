// redb-facts: rustc_private driver that dumps the type-checked program (elaborated MIR with
// resolved callees, ADT layouts, constants, impls, unsafe blocks) of one crate as JSON.
// It decides nothing; the rule engine in /verif/engine does. Zero cargo dependencies.
//
// Use as RUSTC_WORKSPACE_WRAPPER / RUSTC_WRAPPER under `cargo +nightly check`:
//   REDB_FACTS_OUT=<dir>            where fact files are written (required to activate)
//   REDB_FACTS_PKG=<name>           cargo package to analyse (default "redb")
//   REDB_FACTS_VER=<version>        optional exact CARGO_PKG_VERSION filter
//   REDB_FACTS_CRATE=<crate name>   optional crate-name filter (default = package name with - -> _)
#![feature(rustc_private)]
#![allow(clippy::all)]

extern crate rustc_abi;
extern crate rustc_data_structures;
extern crate rustc_driver;
extern crate rustc_hir;
extern crate rustc_interface;
extern crate rustc_middle;
extern crate rustc_session;
extern crate rustc_span;

use rustc_driver::{Callbacks, Compilation};
use rustc_hir::def::DefKind;
use rustc_hir::def_id::DefId;
use rustc_middle::mir::*;
use rustc_middle::ty::{self, Instance, InstanceKind, Ty, TyCtxt, TypingEnv};
use rustc_span::{ExpnKind, Span};
use std::fmt::Write as _;

// ---------------------------------------------------------------- tiny JSON
enum J {
    Null,
    Bool(bool),
    Int(i128),
    Str(String),
    Arr(Vec<J>),
    Obj(Vec<(&'static str, J)>),
}
fn esc(s: &str, out: &mut String) {
    out.push('"');
    for c in s.chars() {
        match c {
            '"' => out.push_str("\\\""),
            '\\' => out.push_str("\\\\"),
            '\n' => out.push_str("\\n"),
            '\r' => out.push_str("\\r"),
            '\t' => out.push_str("\\t"),
            c if (c as u32) < 0x20 => {
                let _ = write!(out, "\\u{:04x}", c as u32);
            }
            c => out.push(c),
        }
    }
    out.push('"');
}
impl J {
    fn write(&self, out: &mut String) {
        match self {
            J::Null => out.push_str("null"),
            J::Bool(b) => out.push_str(if *b { "true" } else { "false" }),
            J::Int(i) => {
                let _ = write!(out, "{}", i);
            }
            J::Str(s) => esc(s, out),
            J::Arr(v) => {
                out.push('[');
                for (i, x) in v.iter().enumerate() {
                    if i > 0 {
                        out.push(',');
                    }
                    x.write(out);
                }
                out.push(']');
            }
            J::Obj(v) => {
                out.push('{');
                for (i, (k, x)) in v.iter().enumerate() {
                    if i > 0 {
                        out.push(',');
                    }
                    esc(k, out);
                    out.push(':');
                    x.write(out);
                }
                out.push('}');
            }
        }
    }
}
fn s(x: impl Into<String>) -> J {
    J::Str(x.into())
}
fn opt_bb(b: Option<BasicBlock>) -> J {
    match b {
        Some(b) => J::Int(b.as_usize() as i128),
        None => J::Null,
    }
}
fn unwind_bb(u: &UnwindAction) -> J {
    match u {
        UnwindAction::Cleanup(b) => J::Int(b.as_usize() as i128),
        _ => J::Null,
    }
}

// ---------------------------------------------------------------- spans
struct Loc {
    file: String,
    line: usize,
    chain: Vec<String>,
}
fn loc(tcx: TyCtxt<'_>, mut span: Span) -> Loc {
    let mut chain = vec![];
    let mut guard = 0;
    while span.from_expansion() && guard < 32 {
        let ed = span.ctxt().outer_expn_data();
        match ed.kind {
            ExpnKind::Macro(_, name) => chain.push(format!("m:{}", name)),
            ExpnKind::Desugaring(d) => chain.push(format!("d:{:?}", d)),
            ExpnKind::AstPass(p) => chain.push(format!("a:{:?}", p)),
            ExpnKind::Root => {}
        }
        span = ed.call_site;
        guard += 1;
    }
    let sm = tcx.sess.source_map();
    if span.is_dummy() {
        return Loc { file: String::new(), line: 0, chain };
    }
    let p = sm.lookup_char_pos(span.lo());
    let file = format!("{}", p.file.name.prefer_local_unconditionally());
    Loc { file, line: p.line, chain }
}

// ---------------------------------------------------------------- types / places
fn ty_adts<'tcx>(tcx: TyCtxt<'tcx>, t: Ty<'tcx>) -> Vec<String> {
    let mut v = vec![];
    for ga in t.walk() {
        if let Some(t) = ga.as_type() {
            match t.kind() {
                ty::Adt(d, _) => v.push(tcx.def_path_str(d.did())),
                ty::Dynamic(preds, ..) => {
                    if let Some(p) = preds.principal_def_id() {
                        v.push(format!("dyn {}", tcx.def_path_str(p)));
                    }
                }
                ty::Closure(d, _) => v.push(tcx.def_path_str(*d)),
                _ => {}
            }
        }
    }
    v.sort();
    v.dedup();
    v
}

fn field_name<'tcx>(tcx: TyCtxt<'tcx>, pty: &rustc_middle::mir::PlaceTy<'tcx>, f: rustc_abi::FieldIdx) -> String {
    match pty.ty.kind() {
        ty::Adt(def, _) => {
            let v = match pty.variant_index {
                Some(v) => def.variant(v),
                None => {
                    if def.is_enum() {
                        return f.as_usize().to_string();
                    }
                    def.non_enum_variant()
                }
            };
            let _ = tcx;
            v.fields[f].name.to_string()
        }
        _ => f.as_usize().to_string(),
    }
}

fn place_json<'tcx>(tcx: TyCtxt<'tcx>, body: &Body<'tcx>, p: &Place<'tcx>) -> J {
    let mut projs = vec![];
    let mut pty = rustc_middle::mir::PlaceTy::from_ty(body.local_decls[p.local].ty);
    for elem in p.projection.iter() {
        let st = match elem {
            ProjectionElem::Deref => "*".to_string(),
            ProjectionElem::Field(f, _) => format!(".{}", field_name(tcx, &pty, f)),
            ProjectionElem::Index(l) => format!("[_{}]", l.as_usize()),
            ProjectionElem::ConstantIndex { offset, from_end, .. } => {
                format!("[{}{}]", if from_end { "-" } else { "" }, offset)
            }
            ProjectionElem::Subslice { .. } => "[..]".to_string(),
            ProjectionElem::Downcast(name, vi) => match name {
                Some(n) => format!("@{}", n),
                None => format!("@{}", vi.as_usize()),
            },
            _ => "?".to_string(),
        };
        projs.push(J::Str(st));
        pty = pty.projection_ty(tcx, elem);
    }
    J::Arr(vec![J::Int(p.local.as_usize() as i128), J::Arr(projs)])
}

fn scalar_to_j<'tcx>(t: Ty<'tcx>, si: ty::ScalarInt) -> J {
    let size = si.size();
    match t.kind() {
        ty::Bool => J::Bool(si.to_bits(size) != 0),
        ty::Int(_) => J::Int(si.to_int(size)),
        ty::Uint(_) | ty::Char => {
            let b = si.to_bits(size);
            if b > i128::MAX as u128 {
                J::Str(format!("{}", b))
            } else {
                J::Int(b as i128)
            }
        }
        _ => {
            let b = si.to_bits(size);
            if b > i128::MAX as u128 {
                J::Str(format!("{}", b))
            } else {
                J::Int(b as i128)
            }
        }
    }
}

fn const_json<'tcx>(tcx: TyCtxt<'tcx>, env: TypingEnv<'tcx>, c: &ConstOperand<'tcx>) -> J {
    let t = c.const_.ty();
    let tys = t.to_string();
    if let ty::FnDef(did, _) = *t.kind() {
        return J::Arr(vec![s("k"), s("fn"), s(tcx.def_path_str(did))]);
    }
    // zero sized / unit
    let mut val = J::Null;
    if t.is_integral() || t.is_bool() || t.is_char() {
        if let Some(si) = c.const_.try_eval_scalar_int(tcx, env) {
            val = scalar_to_j(t, si);
        }
    } else if let ty::Ref(_, inner, _) = t.kind() {
        if let ty::Array(e, _) = inner.kind() {
            // `&[u8; N]` literals (byte strings, format_args templates): read the pointee bytes
            if *e == tcx.types.u8 {
                if let Ok(cv) = c.const_.eval(tcx, env, c.span) {
                    if let ConstValue::Scalar(rustc_middle::mir::interpret::Scalar::Ptr(ptr, _)) = cv {
                        let (prov, offset) = ptr.prov_and_relative_offset();
                        if let Some(rustc_middle::mir::interpret::GlobalAlloc::Memory(alloc)) =
                            tcx.try_get_global_alloc(prov.alloc_id())
                        {
                            let a = alloc.inner();
                            let start = offset.bytes() as usize;
                            if start <= a.len() && a.provenance().ptrs().is_empty() {
                                let bytes = a.inspect_with_uninit_and_ptr_outside_interpreter(start..a.len());
                                val = J::Arr(bytes.iter().map(|b| J::Int(*b as i128)).collect());
                            }
                        }
                    }
                }
            }
        }
        if inner.is_str() || matches!(inner.kind(), ty::Slice(e) if *e == tcx.types.u8) {
            if let Ok(cv) = c.const_.eval(tcx, env, c.span) {
                if let Some(bytes) = cv.try_get_slice_bytes_for_diagnostics(tcx) {
                    if inner.is_str() {
                        val = s(String::from_utf8_lossy(bytes).to_string());
                    } else {
                        val = J::Arr(bytes.iter().map(|b| J::Int(*b as i128)).collect());
                    }
                }
            }
        }
    }
    // record the item path for named constants (Unevaluated)
    let mut named = J::Null;
    if let Const::Unevaluated(uv, _) = c.const_ {
        named = s(tcx.def_path_str(uv.def));
    }
    J::Arr(vec![s("k"), s(tys), val, named])
}

fn operand_json<'tcx>(tcx: TyCtxt<'tcx>, env: TypingEnv<'tcx>, body: &Body<'tcx>, o: &Operand<'tcx>) -> J {
    match o {
        Operand::Copy(p) => J::Arr(vec![s("c"), place_json(tcx, body, p)]),
        Operand::Move(p) => J::Arr(vec![s("m"), place_json(tcx, body, p)]),
        Operand::Constant(c) => const_json(tcx, env, c),
        #[allow(unreachable_patterns)]
        _ => J::Arr(vec![s("k"), s("?"), J::Null, J::Null]),
    }
}

fn enum_variants<'tcx>(tcx: TyCtxt<'tcx>, t: Ty<'tcx>) -> (J, J) {
    if let ty::Adt(def, _) = t.kind() {
        if def.is_enum() {
            let mut vs = vec![];
            for (vi, d) in def.discriminants(tcx) {
                vs.push(J::Arr(vec![
                    J::Str(format!("{}", d.val)),
                    s(def.variant(vi).name.to_string()),
                ]));
            }
            return (s(tcx.def_path_str(def.did())), J::Arr(vs));
        }
    }
    (J::Null, J::Null)
}

fn rvalue_json<'tcx>(tcx: TyCtxt<'tcx>, env: TypingEnv<'tcx>, body: &Body<'tcx>, rv: &Rvalue<'tcx>) -> J {
    let op = |o: &Operand<'tcx>| operand_json(tcx, env, body, o);
    match rv {
        Rvalue::Use(o, ..) => J::Obj(vec![("k", s("use")), ("o", op(o))]),
        Rvalue::CopyForDeref(p) => {
            J::Obj(vec![("k", s("use")), ("o", J::Arr(vec![s("c"), place_json(tcx, body, p)]))])
        }
        Rvalue::Ref(_, bk, p) => J::Obj(vec![
            ("k", s("ref")),
            ("m", J::Bool(matches!(bk, BorrowKind::Mut { .. }))),
            ("p", place_json(tcx, body, p)),
        ]),
        Rvalue::RawPtr(kind, p) => J::Obj(vec![
            ("k", s("rawptr")),
            ("m", J::Bool(matches!(kind, RawPtrKind::Mut))),
            ("p", place_json(tcx, body, p)),
        ]),
        Rvalue::Aggregate(kind, ops) => {
            let (a, v) = match &**kind {
                AggregateKind::Adt(did, vi, ..) => {
                    let def = tcx.adt_def(*did);
                    (tcx.def_path_str(*did), def.variant(*vi).name.to_string())
                }
                AggregateKind::Tuple => ("(tuple)".to_string(), String::new()),
                AggregateKind::Array(_) => ("[array]".to_string(), String::new()),
                AggregateKind::Closure(did, _) => (tcx.def_path_str(*did), "{closure}".to_string()),
                _ => ("?".to_string(), String::new()),
            };
            J::Obj(vec![
                ("k", s("agg")),
                ("a", s(a)),
                ("v", s(v)),
                ("o", J::Arr(ops.iter().map(|o| op(o)).collect())),
            ])
        }
        Rvalue::UnaryOp(u, o) => J::Obj(vec![("k", s("un")), ("op", s(format!("{:?}", u))), ("o", op(o))]),
        Rvalue::BinaryOp(b, ops) => J::Obj(vec![
            ("k", s("bin")),
            ("op", s(format!("{:?}", b))),
            ("o", J::Arr(vec![op(&ops.0), op(&ops.1)])),
        ]),
        Rvalue::Cast(ck, o, t) => J::Obj(vec![
            ("k", s("cast")),
            ("ck", s(format!("{:?}", ck).split('(').next().unwrap_or("").to_string())),
            ("o", op(o)),
            ("ty", s(t.to_string())),
        ]),
        Rvalue::Discriminant(p) => {
            let t = p.ty(&body.local_decls, tcx).ty;
            let (e, vs) = enum_variants(tcx, t);
            J::Obj(vec![("k", s("disc")), ("p", place_json(tcx, body, p)), ("enum", e), ("vars", vs)])
        }
        Rvalue::Repeat(o, _) => J::Obj(vec![("k", s("repeat")), ("o", op(o))]),
        other => J::Obj(vec![("k", s("other")), ("d", s(format!("{:?}", other)))]),
    }
}

fn collect_strs<'tcx>(tcx: TyCtxt<'tcx>, env: TypingEnv<'tcx>, rv: &Rvalue<'tcx>, out: &mut Vec<J>) {
    let mut ops: Vec<&Operand<'tcx>> = vec![];
    match rv {
        Rvalue::Use(o, ..) | Rvalue::Cast(_, o, _) | Rvalue::UnaryOp(_, o) | Rvalue::Repeat(o, _) => ops.push(o),
        Rvalue::Aggregate(_, os) => {
            for o in os.iter() {
                ops.push(o)
            }
        }
        _ => {}
    }
    for o in ops {
        if let Operand::Constant(c) = o {
            if let J::Arr(v) = const_json(tcx, env, c) {
                if let (Some(J::Str(t)), Some(J::Str(x))) = (v.get(1), v.get(2)) {
                    if t.contains("str") {
                        out.push(J::Str(x.clone()));
                    }
                }
            }
        }
    }
}

fn call_target<'tcx>(
    tcx: TyCtxt<'tcx>,
    env: TypingEnv<'tcx>,
    body: &Body<'tcx>,
    func: &Operand<'tcx>,
) -> Vec<(&'static str, J)> {
    let fty = func.ty(&body.local_decls, tcx);
    let mut out = vec![];
    if let ty::FnDef(did, gargs) = *fty.kind() {
        out.push(("fn", s(tcx.def_path_str(did))));
        out.push(("local", J::Bool(did.is_local())));
        out.push(("ga", J::Arr(gargs.iter().map(|a| s(a.to_string())).collect())));
        let mut res = J::Null;
        let mut virt = false;
        if let Ok(Some(inst)) = Instance::try_resolve(tcx, env, did, gargs) {
            match inst.def {
                InstanceKind::Virtual(d, _) => {
                    virt = true;
                    res = s(tcx.def_path_str(d));
                }
                InstanceKind::Item(d) => res = s(tcx.def_path_str(d)),
                _ => res = s(tcx.def_path_str(inst.def_id())),
            }
            if matches!(inst.def, InstanceKind::DropGlue(..)) {
                res = s("drop_glue");
            }
        }
        out.push(("res", res));
        if virt {
            out.push(("virt", J::Bool(true)));
        }
        // trait of the declared callee (for trait-method calls)
        if let Some(tr) = tcx.trait_of_assoc(did) {
            out.push(("trait", s(tcx.def_path_str(tr))));
        }
    } else {
        out.push(("fn", J::Null));
        out.push(("fnop", operand_json(tcx, env, body, func)));
        out.push(("fnty", s(fty.to_string())));
    }
    out
}

fn body_json<'tcx>(tcx: TyCtxt<'tcx>, did: DefId, body: &Body<'tcx>) -> J {
    let env = TypingEnv::post_analysis(tcx, did);
    let mut locals = vec![];
    for (_l, d) in body.local_decls.iter_enumerated() {
        locals.push(J::Arr(vec![s(d.ty.to_string()), J::Arr(ty_adts(tcx, d.ty).into_iter().map(s).collect())]));
    }
    let mut dbg = vec![];
    for v in body.var_debug_info.iter() {
        if let VarDebugInfoContents::Place(p) = &v.value {
            dbg.push(J::Arr(vec![s(v.name.to_string()), place_json(tcx, body, p)]));
        }
    }
    let mut blocks = vec![];
    for (_bb, data) in body.basic_blocks.iter_enumerated() {
        let mut stmts = vec![];
        for st in data.statements.iter() {
            let ln = loc(tcx, st.source_info.span).line as i128;
            match &st.kind {
                StatementKind::Assign(b) => {
                    let (p, rv) = &**b;
                    // type of the place that owns the last field projection (for "store to T.f" rules)
                    let mut owner = J::Null;
                    if let Some((base, ProjectionElem::Field(..))) = p.as_ref().last_projection() {
                        owner = s(base.ty(&body.local_decls, tcx).ty.to_string());
                    }
                    stmts.push(J::Arr(vec![s("a"), place_json(tcx, body, p), rvalue_json(tcx, env, body, rv), J::Int(ln), owner]));
                }
                StatementKind::StorageDead(l) => {
                    stmts.push(J::Arr(vec![s("sd"), J::Int(l.as_usize() as i128)]));
                }
                StatementKind::SetDiscriminant { place, variant_index } => {
                    stmts.push(J::Arr(vec![
                        s("setdisc"),
                        place_json(tcx, body, place),
                        J::Int(variant_index.as_usize() as i128),
                        J::Int(ln),
                    ]));
                }
                _ => {}
            }
        }
        let term = data.terminator();
        let l = loc(tcx, term.source_info.span);
        let mut t: Vec<(&'static str, J)> = vec![];
        match &term.kind {
            TerminatorKind::Goto { target } => {
                t.push(("k", s("goto")));
                t.push(("t", J::Int(target.as_usize() as i128)));
            }
            TerminatorKind::SwitchInt { discr, targets } => {
                t.push(("k", s("sw")));
                t.push(("o", operand_json(tcx, env, body, discr)));
                t.push(("oty", s(discr.ty(&body.local_decls, tcx).to_string())));
                let mut ts = vec![];
                for (v, b) in targets.iter() {
                    ts.push(J::Arr(vec![J::Str(format!("{}", v)), J::Int(b.as_usize() as i128)]));
                }
                t.push(("ts", J::Arr(ts)));
                t.push(("ot", J::Int(targets.otherwise().as_usize() as i128)));
            }
            TerminatorKind::UnwindResume => t.push(("k", s("resume"))),
            TerminatorKind::UnwindTerminate(_) => t.push(("k", s("abort"))),
            TerminatorKind::Return => t.push(("k", s("ret"))),
            TerminatorKind::Unreachable => t.push(("k", s("unreach"))),
            TerminatorKind::Drop { place, target, unwind, .. } => {
                t.push(("k", s("drop")));
                t.push(("p", place_json(tcx, body, place)));
                t.push(("pty", s(place.ty(&body.local_decls, tcx).ty.to_string())));
                t.push(("t", J::Int(target.as_usize() as i128)));
                t.push(("u", unwind_bb(unwind)));
            }
            TerminatorKind::Call { func, args, destination, target, unwind, fn_span, .. } => {
                t.push(("k", s("call")));
                t.extend(call_target(tcx, env, body, func));
                t.push(("a", J::Arr(args.iter().map(|a| operand_json(tcx, env, body, &a.node)).collect())));
                t.push(("d", place_json(tcx, body, destination)));
                t.push(("dty", s(destination.ty(&body.local_decls, tcx).ty.to_string())));
                t.push(("t", opt_bb(*target)));
                t.push(("u", unwind_bb(unwind)));
                let fl = loc(tcx, *fn_span);
                t.push(("fl", J::Int(fl.line as i128)));
            }
            TerminatorKind::TailCall { func, args, .. } => {
                t.push(("k", s("tailcall")));
                t.extend(call_target(tcx, env, body, func));
                t.push(("a", J::Arr(args.iter().map(|a| operand_json(tcx, env, body, &a.node)).collect())));
            }
            TerminatorKind::Assert { cond, expected, target, unwind, msg } => {
                t.push(("k", s("assert")));
                t.push(("o", operand_json(tcx, env, body, cond)));
                t.push(("e", J::Bool(*expected)));
                t.push(("t", J::Int(target.as_usize() as i128)));
                t.push(("u", unwind_bb(unwind)));
                let m = format!("{:?}", msg);
                t.push(("msg", s(m.split('(').next().unwrap_or("").to_string())));
            }
            TerminatorKind::FalseEdge { real_target, .. } => {
                t.push(("k", s("goto")));
                t.push(("t", J::Int(real_target.as_usize() as i128)));
            }
            TerminatorKind::FalseUnwind { real_target, .. } => {
                t.push(("k", s("goto")));
                t.push(("t", J::Int(real_target.as_usize() as i128)));
            }
            other => {
                t.push(("k", s("other")));
                t.push(("d", s(format!("{:?}", other))));
            }
        }
        t.push(("l", J::Int(l.line as i128)));
        if !l.chain.is_empty() {
            t.push(("x", J::Arr(l.chain.into_iter().map(s).collect())));
        }
        blocks.push(J::Obj(vec![("c", J::Bool(data.is_cleanup)), ("s", J::Arr(stmts)), ("t", J::Obj(t))]));
    }
    J::Obj(vec![
        ("argc", J::Int(body.arg_count as i128)),
        ("locals", J::Arr(locals)),
        ("dbg", J::Arr(dbg)),
        ("blocks", J::Arr(blocks)),
    ])
}

fn vis_str(tcx: TyCtxt<'_>, did: DefId) -> &'static str {
    match tcx.visibility(did) {
        ty::Visibility::Public => "pub",
        ty::Visibility::Restricted(m) => {
            if m.is_crate_root() {
                "crate"
            } else {
                "restricted"
            }
        }
    }
}

fn const_value_json<'tcx>(tcx: TyCtxt<'tcx>, did: DefId) -> Option<J> {
    if tcx.generics_of(did).requires_monomorphization(tcx) {
        return None;
    }
    let t = tcx.type_of(did).instantiate_identity().skip_norm_wip();
    let cv = tcx.const_eval_poly(did).ok()?;
    if t.is_integral() || t.is_bool() || t.is_char() {
        let si = cv.try_to_scalar_int()?;
        return Some(scalar_to_j(t, si));
    }
    // &str / &[u8]
    if let ty::Ref(_, inner, _) = t.kind() {
        if inner.is_str() || matches!(inner.kind(), ty::Slice(e) if *e == tcx.types.u8) {
            let bytes = cv.try_get_slice_bytes_for_diagnostics(tcx)?;
            if inner.is_str() {
                return Some(s(String::from_utf8_lossy(bytes).to_string()));
            }
            return Some(J::Arr(bytes.iter().map(|b| J::Int(*b as i128)).collect()));
        }
    }
    // [u8; N] and other by-value aggregates: dump raw bytes of the allocation
    if let ConstValue::Indirect { alloc_id, offset } = cv {
        let alloc = tcx.global_alloc(alloc_id).unwrap_memory();
        let a = alloc.inner();
        let env = TypingEnv::fully_monomorphized();
        if let Ok(layout) = tcx.layout_of(env.as_query_input(t)) {
            let size = layout.size.bytes() as usize;
            let start = offset.bytes() as usize;
            if a.provenance().ptrs().is_empty() && start + size <= a.len() {
                let bytes = a.inspect_with_uninit_and_ptr_outside_interpreter(start..start + size);
                return Some(J::Obj(vec![(
                    "raw",
                    J::Arr(bytes.iter().map(|b| J::Int(*b as i128)).collect()),
                )]));
            }
        }
    }
    None
}

struct UnsafeVisitor<'tcx> {
    tcx: TyCtxt<'tcx>,
    out: Vec<J>,
}
impl<'tcx> rustc_hir::intravisit::Visitor<'tcx> for UnsafeVisitor<'tcx> {
    type NestedFilter = rustc_middle::hir::nested_filter::OnlyBodies;
    fn maybe_tcx(&mut self) -> Self::MaybeTyCtxt {
        self.tcx
    }
    fn visit_block(&mut self, b: &'tcx rustc_hir::Block<'tcx>) {
        if let rustc_hir::BlockCheckMode::UnsafeBlock(rustc_hir::UnsafeSource::UserProvided) = b.rules {
            let owner = b.hir_id.owner.def_id.to_def_id();
            let l = loc(self.tcx, b.span);
            self.out.push(J::Obj(vec![
                ("owner", s(self.tcx.def_path_str(owner))),
                ("f", s(l.file)),
                ("l", J::Int(l.line as i128)),
                ("exp", J::Bool(!l.chain.is_empty())),
            ]));
        }
        rustc_hir::intravisit::walk_block(self, b);
    }
}

fn dump(tcx: TyCtxt<'_>) -> String {
    let mut fns = vec![];
    for ldid in tcx.hir_body_owners() {
        let did = ldid.to_def_id();
        let kind = tcx.def_kind(did);
        let k = match kind {
            DefKind::Fn => "fn",
            DefKind::AssocFn => "assoc",
            DefKind::Closure => "closure",
            _ => continue,
        };
        if tcx.is_coroutine(did) {
            continue;
        }
        let body = tcx.optimized_mir(did);
        let l = loc(tcx, tcx.def_span(did));
        let root = tcx.typeck_root_def_id(did);
        let mut o: Vec<(&'static str, J)> = vec![
            ("p", s(tcx.def_path_str(did))),
            ("k", s(k)),
            ("par", if root != did { s(tcx.def_path_str(root)) } else { J::Null }),
            ("f", s(l.file)),
            ("l", J::Int(l.line as i128)),
        ];
        if matches!(kind, DefKind::Fn | DefKind::AssocFn) {
            o.push(("vis", s(vis_str(tcx, did))));
            let sig = tcx.fn_sig(did).skip_binder();
            o.push(("unsafe", J::Bool(!sig.safety().is_safe())));
            o.push(("ret", s(sig.output().skip_binder().to_string())));
            o.push((
                "params",
                J::Arr(sig.inputs().skip_binder().iter().map(|t| s(t.to_string())).collect()),
            ));
            if let Some(imp) = tcx.impl_of_assoc(did) {
                let st = tcx.type_of(imp).instantiate_identity().skip_norm_wip();
                o.push(("self_ty", s(st.to_string())));
                if let Some(tr) = tcx.impl_opt_trait_ref(imp) {
                    o.push(("impl_trait", s(tcx.def_path_str(tr.skip_binder().def_id))));
                }
            }
        }
        o.push(("mir", body_json(tcx, did, body)));
        fns.push(J::Obj(o));
    }

    let mut adts = vec![];
    let mut consts = vec![];
    let mut impls = vec![];
    for ldid in tcx.iter_local_def_id() {
        let did = ldid.to_def_id();
        match tcx.def_kind(did) {
            DefKind::Struct | DefKind::Enum | DefKind::Union => {
                let def = tcx.adt_def(did);
                let g = tcx.generics_of(did);
                let mut lt = false;
                let mut tps = vec![];
                for p in g.own_params.iter() {
                    match p.kind {
                        ty::GenericParamDefKind::Lifetime => lt = true,
                        ty::GenericParamDefKind::Type { .. } => tps.push(s(p.name.to_string())),
                        _ => {}
                    }
                }
                let mut variants = vec![];
                for v in def.variants().iter() {
                    let mut fields = vec![];
                    for f in v.fields.iter() {
                        let ft = tcx.type_of(f.did).instantiate_identity().skip_norm_wip();
                        fields.push(J::Obj(vec![
                            ("n", s(f.name.to_string())),
                            ("ty", s(ft.to_string())),
                            ("adts", J::Arr(ty_adts(tcx, ft).into_iter().map(s).collect())),
                            ("vis", s(vis_str(tcx, f.did))),
                        ]));
                    }
                    variants.push(J::Obj(vec![("n", s(v.name.to_string())), ("fields", J::Arr(fields))]));
                }
                let l = loc(tcx, tcx.def_span(did));
                adts.push(J::Obj(vec![
                    ("p", s(tcx.def_path_str(did))),
                    ("k", s(if def.is_enum() { "enum" } else if def.is_union() { "union" } else { "struct" })),
                    ("vis", s(vis_str(tcx, did))),
                    ("reach", J::Bool(tcx.effective_visibilities(()).is_reachable(ldid))),
                    ("lt", J::Bool(lt)),
                    ("tp", J::Arr(tps)),
                    ("drop", J::Bool(def.has_dtor(tcx))),
                    ("variants", J::Arr(variants)),
                    ("f", s(l.file)),
                    ("l", J::Int(l.line as i128)),
                ]));
            }
            DefKind::Const { .. } | DefKind::AssocConst { .. } => {
                let t = tcx.type_of(did).instantiate_identity().skip_norm_wip();
                let v = const_value_json(tcx, did);
                // string literals of the initialiser (e.g. system table names inside a
                // `SystemTableDefinition::new("..")` constant that is not itself a scalar)
                let mut strs = vec![];
                if tcx.is_mir_available(did) || ldid.to_def_id().is_local() {
                    if !tcx.generics_of(did).requires_monomorphization(tcx) && tcx.hir_maybe_body_owned_by(ldid).is_some() {
                        let body = tcx.mir_for_ctfe(ldid);
                        let env = TypingEnv::post_analysis(tcx, did);
                        for bb in body.basic_blocks.iter() {
                            for st in bb.statements.iter() {
                                if let StatementKind::Assign(b) = &st.kind {
                                    collect_strs(tcx, env, &b.1, &mut strs);
                                }
                            }
                            if let TerminatorKind::Call { args, .. } = &bb.terminator().kind {
                                for a in args.iter() {
                                    if let Operand::Constant(c) = &a.node {
                                        if let J::Arr(v) = const_json(tcx, env, c) {
                                            if let Some(J::Str(x)) = v.get(2) {
                                                if matches!(v.get(1), Some(J::Str(t)) if t.contains("str")) {
                                                    strs.push(J::Str(x.clone()));
                                                }
                                            }
                                        }
                                    }
                                }
                            }
                        }
                    }
                }
                consts.push(J::Obj(vec![
                    ("p", s(tcx.def_path_str(did))),
                    ("ty", s(t.to_string())),
                    ("v", v.unwrap_or(J::Null)),
                    ("strs", J::Arr(strs)),
                ]));
            }
            DefKind::Impl { .. } => {
                let st = tcx.type_of(did).instantiate_identity().skip_norm_wip();
                let tr = tcx.impl_opt_trait_ref(did).map(|t| tcx.def_path_str(t.skip_binder().def_id));
                let items: Vec<J> =
                    tcx.associated_item_def_ids(did).iter().map(|d| s(tcx.def_path_str(*d))).collect();
                let l = loc(tcx, tcx.def_span(did));
                impls.push(J::Obj(vec![
                    ("trait", tr.map(s).unwrap_or(J::Null)),
                    ("self", s(st.to_string())),
                    ("self_adts", J::Arr(ty_adts(tcx, st).into_iter().map(s).collect())),
                    ("items", J::Arr(items)),
                    ("f", s(l.file)),
                    ("l", J::Int(l.line as i128)),
                ]));
            }
            _ => {}
        }
    }

    let mut uv = UnsafeVisitor { tcx, out: vec![] };
    tcx.hir_visit_all_item_likes_in_crate(&mut uv);

    let root = J::Obj(vec![
        ("crate", s(tcx.crate_name(rustc_hir::def_id::LOCAL_CRATE).to_string())),
        ("version", s(std::env::var("CARGO_PKG_VERSION").unwrap_or_default())),
        ("debug_assertions", J::Bool(tcx.sess.opts.debug_assertions)),
        ("fns", J::Arr(fns)),
        ("adts", J::Arr(adts)),
        ("consts", J::Arr(consts)),
        ("impls", J::Arr(impls)),
        ("unsafe_blocks", J::Arr(uv.out)),
    ]);
    let mut out = String::new();
    root.write(&mut out);
    out
}

struct Cb {
    active: bool,
}
impl Callbacks for Cb {
    fn after_analysis<'tcx>(&mut self, _c: &rustc_interface::interface::Compiler, tcx: TyCtxt<'tcx>) -> Compilation {
        if !self.active {
            return Compilation::Continue;
        }
        let dir = match std::env::var("REDB_FACTS_OUT") {
            Ok(d) => d,
            Err(_) => return Compilation::Continue,
        };
        let text = dump(tcx);
        let name = format!(
            "{}/{}-{}-{}.json",
            dir,
            tcx.crate_name(rustc_hir::def_id::LOCAL_CRATE),
            std::env::var("CARGO_PKG_VERSION").unwrap_or_default(),
            std::process::id()
        );
        let tmp = format!("{}.tmp", name);
        std::fs::write(&tmp, text).expect("write facts");
        std::fs::rename(&tmp, &name).expect("rename facts");
        Compilation::Continue
    }
}

fn main() {
    let mut args: Vec<String> = std::env::args().collect();
    // wrapper protocol: argv[1] is the real rustc path
    if args.len() > 1 && !args[1].starts_with('-') && (args[1].ends_with("rustc") || args[1].contains("/rustc")) {
        args.remove(1);
    }
    let pkg = std::env::var("REDB_FACTS_PKG").unwrap_or_else(|_| "redb".to_string());
    let want_crate = std::env::var("REDB_FACTS_CRATE").unwrap_or_else(|_| pkg.replace('-', "_"));
    let mut active = std::env::var("REDB_FACTS_OUT").is_ok()
        && std::env::var("CARGO_PKG_NAME").map(|p| p == pkg).unwrap_or(false);
    if let Ok(v) = std::env::var("REDB_FACTS_VER") {
        if std::env::var("CARGO_PKG_VERSION").map(|x| x != v).unwrap_or(true) {
            active = false;
        }
    }
    // crate name check (skips build scripts)
    let mut cname = None;
    for (i, a) in args.iter().enumerate() {
        if a == "--crate-name" {
            cname = args.get(i + 1).cloned();
        }
    }
    if cname.as_deref() != Some(want_crate.as_str()) {
        active = false;
    }
    if args.iter().any(|a| a == "--test") {
        active = false;
    }
    let mut cb = Cb { active };
    rustc_driver::run_compiler(&args, &mut cb);
}
