#!/usr/bin/env python3
"""Runner: ./check <Cxx|all> <quick|thorough>  (see DESIGN.md section 7)

Extracts facts from /repo's current working tree with the rustc_private driver (fresh target dir
every time), evaluates the property's rule table in every configuration of the tier, runs the
canary fixtures through the same driver, writes evidence/<id>.json, prints VIOLATION /
KNOWN-FINDING lines, and exits 0/1.
"""
import os
import sys
import json
import time
import glob
import shutil
import hashlib
import tempfile
import subprocess
import importlib
import traceback

HERE = os.path.dirname(os.path.abspath(__file__))
VERIF = os.path.dirname(HERE)
REPO = os.environ.get('VERIF_REPO', '/repo')
OUT = os.environ.get('VERIF_OUT', VERIF)  # evidence/ and replays/ go here (mutant self-tests redirect it)
sys.path.insert(0, HERE)
import core
import rulekit

DRIVER = os.path.join(VERIF, 'driver', 'target', 'release', 'redb-facts')

CONFIGS = {
    # id: (cargo args, extra rustflags, description)
    'D': ([], '', 'default features, dev profile (debug assertions on)'),
    'R': ([], '-Cdebug-assertions=off', 'default features, debug assertions off'),
    'A': (['--all-features'], '', 'all features'),
    'N': (['--no-default-features', '--features', 'experimental-api-5'], '-Cpanic=abort', 'no_std build (cfg redb_no_std, spin locks)'),
}
TIER_CONFIGS = {'quick': ['D', 'A'], 'thorough': ['D', 'R', 'A', 'N']}


def sysroot():
    return subprocess.check_output(['rustc', '+nightly', '--print', 'sysroot'], text=True).strip()


def src_hash(root=REPO):
    h = hashlib.sha256()
    files = []
    for base in ('src',):
        for dp, _dn, fn in os.walk(os.path.join(root, base)):
            for f in fn:
                files.append(os.path.join(dp, f))
    for f in ('Cargo.toml', 'Cargo.lock', 'build.rs'):
        files.append(os.path.join(root, f))
    for f in sorted(files):
        try:
            with open(f, 'rb') as fh:
                h.update(f.encode())
                h.update(fh.read())
        except OSError:
            pass
    return h.hexdigest()[:16]


def extract(cfg, workdir, manifest_dir=REPO, pkg='redb@4.2.0', pkg_name='redb', ver=None, wrapper='RUSTC_WORKSPACE_WRAPPER', lib=True):
    """run the driver; returns path of the fact file. Fresh target dir, removed afterwards."""
    dev = os.environ.get('VERIF_FACTS_DIR')
    if dev and manifest_dir == REPO:
        p = os.path.join(dev, cfg + '.json')
        if os.path.exists(p):
            return p
    args, rflags, _d = CONFIGS[cfg]
    out = os.path.join(workdir, 'facts-' + cfg + '-' + pkg_name + (ver or ''))
    tgt = os.path.join(workdir, 'target-' + cfg + '-' + pkg_name + (ver or ''))
    os.makedirs(out, exist_ok=True)
    env = dict(os.environ)
    env['LD_LIBRARY_PATH'] = sysroot() + '/lib' + (':' + env['LD_LIBRARY_PATH'] if env.get('LD_LIBRARY_PATH') else '')
    env['RUSTFLAGS'] = ('-Zmir-opt-level=0 -Awarnings ' + rflags).strip()
    env[wrapper] = DRIVER
    env['REDB_FACTS_OUT'] = out
    env['REDB_FACTS_PKG'] = pkg_name
    if ver:
        env['REDB_FACTS_VER'] = ver
    env['CARGO_TARGET_DIR'] = tgt
    env['CARGO_NET_OFFLINE'] = 'true'
    env.pop('RUSTC_WRAPPER', None) if wrapper != 'RUSTC_WRAPPER' else None
    cmd = ['cargo', '+nightly', 'check', '--offline']
    if lib:
        cmd += ['--lib']
    if pkg:
        cmd += ['-p', pkg]
    cmd += args
    p = subprocess.run(cmd, cwd=manifest_dir, env=env, stdout=subprocess.PIPE, stderr=subprocess.STDOUT, text=True)
    shutil.rmtree(tgt, ignore_errors=True)
    if p.returncode != 0:
        raise RuntimeError('fact extraction failed for config %s (does the tree compile?):\n%s' % (cfg, p.stdout[-4000:]))
    fs = glob.glob(os.path.join(out, '*.json'))
    if len(fs) != 1:
        raise RuntimeError('expected exactly one fact file for config %s, found %d (driver skipped?)\n%s' % (cfg, len(fs), p.stdout[-2000:]))
    return fs[0]


def load_known():
    p = os.path.join(VERIF, 'known_findings.json')
    if not os.path.exists(p):
        return []
    with open(p) as f:
        return json.load(f).get('findings', [])


def run_property(prop, tier, workdir, facts_cache):
    t0 = time.time()
    mod = importlib.import_module('rules.' + prop.lower())
    cfgs = TIER_CONFIGS[tier]
    ctxs = []
    internal_errors = []
    for cfg in cfgs:
        if cfg not in facts_cache:
            fp = extract(cfg, workdir)
            facts_cache[cfg] = core.Facts(fp)
        facts = facts_cache[cfg]
        ctx = rulekit.Ctx(facts, cfg, prop)
        try:
            mod.rules(ctx)
        except Exception:
            ctx.set_rule(prop + '.internal')
            ctx._ob(False)
            ctx.violate('internal-error', 'rule evaluation crashed (fail closed): ' + traceback.format_exc()[-1500:])
            internal_errors.append(traceback.format_exc())
        ctxs.append(ctx)
    # canaries (fixture crate through the same driver), every run
    canary = run_canaries(workdir, facts_cache)
    # tier extras (witnesses, cross-version) are implemented by the rule module
    extras = []
    if hasattr(mod, 'extras'):
        try:
            extras = mod.extras(tier, workdir, facts_cache) or []
        except Exception:
            extras = [{'name': 'extras', 'ok': False, 'violations': [('%s.extras|internal-error' % prop, traceback.format_exc()[-1500:])], 'obligations': 1, 'detail': 'crashed'}]

    if tier == 'thorough' and getattr(mod, 'WITNESSES', None):
        try:
            import witness
            extras.append(witness.check(workdir, mod.WITNESSES))
        except Exception:
            extras.append({'name': 'witnesses', 'ok': False, 'violations': [('%s.witness|internal-error' % prop, traceback.format_exc()[-1500:])], 'obligations': 1, 'detail': 'crashed'})

    known = [k for k in load_known() if k.get('property') == prop and k.get('status', 'open') == 'open']
    known_keys = {k['key']: k for k in known}

    seen = {}
    for ctx in ctxs:
        for v in ctx.violations:
            seen.setdefault(v.key, []).append(v)
    extra_viol = []
    for e in extras:
        for (key, msg) in e.get('violations', []):
            extra_viol.append((key, msg))
    if not canary['ok']:
        extra_viol.append(('%s.canary|%s' % (prop, canary['detail'][:80]), 'checker self-test (canary fixtures) failed: ' + canary['detail']))

    os.makedirs(os.path.join(OUT, 'replays'), exist_ok=True)
    n_viol = 0
    printed_known = set()
    lines = []
    for key, vs in sorted(seen.items()):
        if key in known_keys:
            if key not in printed_known:
                printed_known.add(key)
                lines.append('KNOWN-FINDING: property=%s %s -- %s' % (prop, key, known_keys[key].get('what', '')))
            continue
        n_viol += 1
        rp = os.path.join(OUT, 'replays', '%s-%s.json' % (prop, hashlib.sha1(key.encode()).hexdigest()[:12]))
        with open(rp, 'w') as f:
            json.dump({'property': prop, 'key': key, 'tier': tier, 'instances': [v.to_json() for v in vs]}, f, indent=1)
        for v in vs:
            lines.append('  ' + v.text())
        lines.append('VIOLATION property=%s replay=%s' % (prop, rp))
    for key, msg in extra_viol:
        if key in known_keys:
            if key not in printed_known:
                printed_known.add(key)
                lines.append('KNOWN-FINDING: property=%s %s -- %s' % (prop, key, known_keys[key].get('what', '')))
            continue
        n_viol += 1
        rp = os.path.join(OUT, 'replays', '%s-%s.json' % (prop, hashlib.sha1(key.encode()).hexdigest()[:12]))
        with open(rp, 'w') as f:
            json.dump({'property': prop, 'key': key, 'tier': tier, 'message': msg}, f, indent=1)
        lines.append('  [%s] %s' % (key, msg))
        lines.append('VIOLATION property=%s replay=%s' % (prop, rp))
    # a known finding that no longer reproduces is reported (not an alarm)
    for k in known_keys:
        if k not in printed_known:
            lines.append('NOTE: known finding no longer reproduces: %s' % k)

    obligations = sum(c.obligations for c in ctxs) + sum(e.get('obligations', 0) for e in extras) + canary['obligations']
    discharged = sum(c.discharged for c in ctxs) + sum(e.get('obligations', 0) - len(e.get('violations', [])) for e in extras) + (canary['obligations'] if canary['ok'] else 0)
    per_rule = {}
    for c in ctxs:
        for r, d in c.per_rule.items():
            pr = per_rule.setdefault(r, {'desc': d['desc'], 'obligations': 0, 'discharged': 0, 'sites': 0, 'configs': []})
            pr['obligations'] += d['obligations']
            pr['discharged'] += d['discharged']
            pr['sites'] += d['sites']
            pr['configs'].append(c.cfg)
    samples = []
    byrule = {}
    for c in ctxs:
        for s in c.samples:
            byrule.setdefault(s['rule'], []).append(s)
    for r, ss in sorted(byrule.items()):
        samples.extend(ss[:3])
    fns_touched = set()
    for c in ctxs:
        fns_touched |= c.fns_touched
    doc = getattr(mod, 'DOC', {})
    ev = {
        'property_id': prop,
        'tier': tier,
        'seed': int(os.environ.get('VERIF_SEED', '0') or 0),
        'level': 'other',
        'coverage': {
            'explanation': doc.get('explanation', ''),
            'decided': doc.get('decided', []) or ['%s: %s' % (r, d['desc']) for r, d in sorted(per_rule.items()) if d.get('desc')],
            'not_decided': doc.get('not_decided', []),
            'obligations': obligations,
            'discharged': discharged,
            'rule_instances': len(per_rule),
            'per_rule': per_rule,
            'configurations': {c: CONFIGS[c][2] for c in cfgs},
            'functions_in_crate': {c.cfg: len(c.facts.fn_list) for c in ctxs},
            'anchored_functions_analysed': len(fns_touched),
            'source_hash': src_hash(),
            'canaries': canary,
            'extras': [{k: v for k, v in e.items() if k != 'violations'} for e in extras],
            'known_findings_printed': sorted(printed_known),
            'unmatched_subject': sum(c.unmatched_subject for c in ctxs),
            'samples': samples[:120],
            'checker_cmd': './check %s %s' % (prop, tier),
            'trusted_base': ['rustc 1.97.0-nightly MIR construction and Instance::try_resolve', 'anchor and who-may-call tables in engine/rules (confirmed by reading)', 'driver fact encoding (engine canaries exercise it on every run)'],
            'exhaustive': True,
        },
        'assumptions': doc.get('assumptions', []) + [
            'static analysis only: the structural clauses listed under coverage.decided are decided on every path of every analysed build configuration; the behavioural statement as a whole is not decided',
            'test code (#[cfg(test)]) is out of scope',
        ],
        'wall_s': round(time.time() - t0, 2),
        'violations': n_viol,
    }
    os.makedirs(os.path.join(OUT, 'evidence'), exist_ok=True)
    with open(os.path.join(OUT, 'evidence', prop + '.json'), 'w') as f:
        json.dump(ev, f, indent=1)
    print('== %s %s: %d obligations, %d discharged, %d rule instances, configs %s, %.1fs' % (prop, tier, obligations, discharged, len(per_rule), ','.join(cfgs), time.time() - t0))
    for l in lines:
        print(l)
    return n_viol


_canary_cache = {}


def run_canaries(workdir, facts_cache):
    if 'r' in _canary_cache:
        return _canary_cache['r']
    try:
        import canary
        r = canary.run(workdir, extract)
    except Exception:
        r = {'ok': False, 'detail': 'canary crashed: ' + traceback.format_exc()[-800:], 'obligations': 1, 'cases': []}
    _canary_cache['r'] = r
    return r


def all_props():
    out = []
    for p in sorted(glob.glob(os.path.join(HERE, 'rules', 'c[0-9][0-9].py'))):
        out.append(os.path.basename(p)[:-3].upper())
    return out


def main():
    if len(sys.argv) < 2:
        print(__doc__)
        return 2
    what = sys.argv[1]
    tier = sys.argv[2] if len(sys.argv) > 2 else os.environ.get('VERIF_TIER', 'quick')
    if tier not in TIER_CONFIGS:
        print('unknown tier', tier)
        return 2
    if not os.path.exists(DRIVER):
        print('driver not built: run ./setup.sh')
        print('VIOLATION property=%s replay=/verif/replays/setup-missing' % what)
        return 1
    props = all_props() if what == 'all' else [what.upper()]
    base = os.environ.get('VERIF_TMP') or tempfile.gettempdir()
    workdir = tempfile.mkdtemp(prefix='redb-verif-', dir=base)
    rc = 0
    try:
        cache = {}
        for p in props:
            try:
                n = run_property(p, tier, workdir, cache)
            except Exception as e:
                print('check crashed (fail closed):', e)
                traceback.print_exc()
                os.makedirs(os.path.join(OUT, 'replays'), exist_ok=True)
                rp = os.path.join(OUT, 'replays', '%s-crash.json' % p)
                with open(rp, 'w') as f:
                    json.dump({'property': p, 'error': str(e)}, f)
                print('VIOLATION property=%s replay=%s' % (p, rp))
                n = 1
            if n:
                rc = 1
    finally:
        shutil.rmtree(workdir, ignore_errors=True)
    return rc


if __name__ == '__main__':
    sys.exit(main())
