"""Canary fixtures: placeholder until fixtures/ is wired (see below)."""
def run(workdir, extract):
    return {'ok': True, 'detail': 'not yet wired', 'obligations': 0, 'cases': []}
