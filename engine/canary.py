"""Canary fixtures: the fixture crate /verif/fixtures is analysed by the same driver binary on every
check run; each rule primitive must flag exactly its `*_bad` example and stay silent on `*_good`."""
import os
import shutil
import core
import rulekit
from rulekit import Guard, cpoint


def run(workdir, extract):
    import run as runner
    src = os.path.join(runner.VERIF, 'fixtures')
    dst = os.path.join(workdir, 'fixtures')
    if os.path.exists(dst):
        shutil.rmtree(dst)
    shutil.copytree(src, dst, ignore=shutil.ignore_patterns('target'))
    fp = extract('D', workdir, manifest_dir=dst, pkg=None, pkg_name='fixtures', lib=True)
    F = core.Facts(fp)
    cases = []

    def case(name, expect_violation, fn):
        ctx = rulekit.Ctx(F, 'canary', 'canary')
        ctx.set_rule('canary.' + name)
        try:
            fn(ctx)
            got = len(ctx.violations) > 0
            err = None
        except Exception as e:  # a crash is a failure
            got = None
            err = repr(e)
        cases.append({'case': name, 'expect_violation': expect_violation, 'got_violation': got, 'ok': got == expect_violation, 'error': err})

    def order(fnname):
        def f(ctx):
            g = ctx.fn(fnname)
            ctx.order(g, ctx.sites(g, 'Dev::flush', exact=1), ctx.sites(g, 'Dev::publish', exact=1))
        return f
    case('order_good', False, order('order_good'))
    case('order_bad', True, order('order_bad'))

    def mustpass(fnname):
        def f(ctx):
            g = ctx.fn(fnname)
            ctx.must_pass(g, ctx.sites(g, 'Dev::flush', exact=1))
        return f
    case('mustpass_good', False, mustpass('mustpass_good'))
    case('mustpass_bad', True, mustpass('mustpass_bad'))

    def after(fnname):
        def f(ctx):
            g = ctx.fn(fnname)
            ctx.guarded(g, ctx.sites(g, 'Dev::publish', exact=1), [Guard(call='Dev::flush', vals={'Ok'})])
        return f
    case('after_success_good', False, after('after_success_good'))
    case('after_success_bad', True, after('after_success_bad'))

    def guard(fnname, target, g_):
        def f(ctx):
            g = ctx.fn(fnname)
            ctx.guarded(g, ctx.sites(g, target, exact=1), g_)
        return f
    chk = [Guard(call='Dev::check', vals={'true'})]
    case('guard_good', False, guard('guard_good', 'Dev::mutate', chk))
    case('guard_bad', True, guard('guard_bad', 'Dev::mutate', chk))
    case('guard_assert_good', False, guard('guard_assert_good', 'Dev::mutate', chk))
    case('guard_early_return_good', False, guard('guard_early_return_good', 'Dev::mutate', chk))
    er = [Guard(call='Dev::inner', vals={'Err'})]
    case('guard_matches_good', False, guard('guard_matches_good', 'Dev::poison', er))
    case('guard_matches_bad', True, guard('guard_matches_bad', 'Dev::poison', er))
    case('guard_andand_good', False, guard('guard_andand_good', 'Dev::mutate', chk))
    case('guard_andand_bad', True, guard('guard_andand_bad', 'Dev::mutate', chk))
    case('guard_is_err_good', False, guard('guard_is_err_good', 'Dev::poison', er))
    case('guard_atomic_good', False, guard('guard_atomic_good', 'Dev::mutate', [Guard(place='d.failed', vals={'false'})]))
    case('guard_atomic_wrong_polarity', True, guard('guard_atomic_good', 'Dev::mutate', [Guard(place='d.failed', vals={'true'})]))
    case('guard_flag_out_param', False, guard('guard_flag_out_param', 'Dev::poison', [Guard(place='poisoned', vals={'true'})]))

    def discards(ctx):
        ds = {F.root_of(c.fn).path for c in core.discard_sites_generic(F, ('E',))}
        ctx.check(ds == {'discard_bad', 'discard_ok_bad'}, 'discards', 'discard detector flags exactly discard_bad and discard_ok_bad (got %s)' % sorted(ds))
    case('discard_exact', False, discards)

    def held(fnname):
        def f(ctx):
            g = ctx.fn(fnname)
            ctx.held(g, ctx.sites(g, 'Dev::mutate', exact=1), 'd.lock')
        return f
    case('held_good', False, held('held_good'))
    case('held_bad', True, held('held_bad'))
    case('held_temp_bad', True, held('held_temp_bad'))
    case('held_branch_bad', True, held('held_branch_bad'))

    def correlated(fnname):
        def f(ctx):
            g = ctx.fn(fnname)
            e_rw = core.guard_edges(g, [Guard(place='read_only', vals={'false'})])
            r = core.reach(g, cut_edges=e_rw)
            m = ctx.sites(g, 'Dev::mutate', exact=1)
            ctx.check(bool(e_rw) and m and m[0].bb not in r['term'], 'correlated', 'with read_only == true the mutation is unreachable', g, g.line)
        return f
    case('correlated_good', False, correlated('correlated_good'))
    case('correlated_bad', True, correlated('correlated_bad'))

    def flow(fnname):
        def f(ctx):
            g = ctx.fn(fnname)
            for p in ctx.sites(g, 'Dev::free_until', exact=1):
                ctx.flows(g, p, 1, from_call='Dev::horizon')
        return f
    case('flow_good', False, flow('flow_good'))
    case('flow_bad', True, flow('flow_bad'))

    case('callers_frozen_ok', False, lambda ctx: ctx.callers_eq('Dev::poison', {'allowed_caller', 'new_caller', 'guard_matches_good', 'guard_matches_bad', 'guard_is_err_good', 'guard_flag_out_param'}))
    case('callers_new_caller', True, lambda ctx: ctx.callers_eq('Dev::poison', {'allowed_caller', 'guard_matches_good', 'guard_matches_bad', 'guard_is_err_good', 'guard_flag_out_param'}))

    def types(ctx):
        good = core.adt_contains(F, 'GoodHandle', lambda t: t == 'Guard')
        none = core.adt_contains(F, 'NoGuardHandle', lambda t: t == 'Guard')
        a = F.adts['BadOrderHandle']['variants'][0]['fields']
        order_bad = [f['n'] for f in a].index('guard') < [f['n'] for f in a].index('pages')
        ctx.check(good and not none and order_bad, 'types', 'type walk: GoodHandle owns Guard, NoGuardHandle does not, BadOrderHandle declares guard first')
    case('type_walk', False, types)

    def tags(ctx):
        em, _ = core.emitted_consts(F.fn('Tag::to_byte'))
        ac, found = core.accepted_values(F.fn('Tag::from_byte'))
        ctx.check(em == {1, 2, 9} and ac == {1, 2} and found, 'tags', 'tag map extraction: emitted %s accepted %s' % (sorted(em), sorted(map(str, ac))))
        ctx.check(F.consts['OFFSET']['v'] == 12 and F.consts['NAME']['v'] == 'fixture_table' and F.consts['MAGIC']['v'] == {'raw': [1, 2, 3]}, 'consts', 'constant evaluation')
    case('tag_maps_and_consts', False, tags)

    def fullrange(fnname):
        def f(ctx):
            from rules import shared as S
            S.full_range_fn(ctx, ctx.fn(fnname), 'fixture walker', 'Br::count_children', ('Br::child_page',))
        return f
    case('fullrange_rev_good', False, fullrange('walk_rev_good'))
    case('fullrange_arith_good', False, fullrange('walk_arith_good'))
    case('fullrange_inclusive_good', False, fullrange('walk_inclusive_good'))
    case('fullrange_skips_zero_bad', True, fullrange('walk_skips_zero_bad'))
    case('fullrange_skip_adaptor_bad', True, fullrange('walk_skip_adaptor_bad'))
    case('fullrange_short_bad', True, fullrange('walk_short_bad'))

    bad = [c for c in cases if not c['ok']]
    return {'ok': not bad, 'detail': 'all %d canary cases behaved' % len(cases) if not bad else 'canary mismatch: %s' % [(c['case'], c['got_violation'], c['error']) for c in bad],
            'obligations': len(cases), 'cases': cases}
