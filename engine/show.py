#!/usr/bin/env python3
"""Developer aid: print the MIR facts of one function readably, with edge facts.
usage: show.py <facts.json> <fn pattern> [--facts]"""
import sys
import os
sys.path.insert(0, os.path.dirname(__file__))
import core


def pl(p):
    s = '_%d' % p[0]
    for x in p[1]:
        s = ('(*%s)' % s) if x == '*' else s + x
    return s


def op(o):
    if o[0] == 'k':
        if o[1] == 'fn':
            return 'fn ' + o[2]
        return 'const %s %r%s' % (o[1], o[2], (' /*%s*/' % o[3]) if len(o) > 3 and o[3] else '')
    return ('move ' if o[0] == 'm' else '') + pl(o[1])


def rv(r):
    k = r['k']
    if k == 'use':
        return op(r['o'])
    if k in ('ref', 'rawptr'):
        return ('&mut ' if r['m'] else '&') + pl(r['p'])
    if k == 'agg':
        return '%s::%s(%s)' % (r['a'], r['v'], ', '.join(op(o) for o in r['o']))
    if k == 'un':
        return '%s(%s)' % (r['op'], op(r['o']))
    if k == 'bin':
        return '%s(%s, %s)' % (r['op'], op(r['o'][0]), op(r['o'][1]))
    if k == 'cast':
        return '%s as %s' % (op(r['o']), r['ty'])
    if k == 'disc':
        return 'discriminant(%s) /*%s*/' % (pl(r['p']), r.get('enum'))
    return json.dumps(r)


def show(fn, with_facts=True):
    print('fn', fn.path, fn.file, fn.line, 'argc', fn.argc)
    for n, p in fn.mir['dbg']:
        print('   dbg', n, '=', pl(p))
    lg = core.live_guards(fn)
    for i, b in enumerate(fn.blocks):
        print('bb%d%s:' % (i, ' (cleanup)' if b['c'] else ''))
        for st in b['s']:
            if st[0] == 'a':
                print('    %s = %s    // L%s' % (pl(st[1]), rv(st[2]), st[3]))
            elif st[0] == 'sd':
                print('    StorageDead(_%d)' % st[1])
            else:
                print('   ', st)
        t = b['t']
        k = t['k']
        if k == 'call':
            c = core.CallSite(fn, i, t)
            print('    %s = %s(%s) -> bb%s unwind %s   // L%s %s %s' % (
                pl(t['d']), c.callee if t.get('fn') else ('INDIRECT ' + op(t['fnop'])), ', '.join(op(a) for a in t['a']), t['t'], t['u'], t.get('fl'),
                t.get('x', ''), ('HELD ' + str(sorted(core.held_classes_at(fn, i)))) if lg[i] else ''))
        elif k == 'sw':
            print('    switchInt(%s) %s otherwise bb%s   // L%s %s' % (op(t['o']), t['ts'], t['ot'], t.get('l'), t.get('x', '')))
            if with_facts:
                for si, fs in enumerate(core.edge_facts(fn, i)):
                    print('        edge->bb%d: %s' % (fn.succ(i)[si][0], fs))
        elif k == 'drop':
            print('    drop(%s) -> bb%s unwind %s' % (pl(t['p']), t['t'], t['u']))
        elif k == 'assert':
            print('    assert(%s == %s) -> bb%s  %s // L%s %s' % (op(t['o']), t['e'], t['t'], t.get('msg'), t.get('l'), t.get('x', '')))
            if with_facts:
                print('        facts:', core.edge_facts(fn, i))
        elif k == 'goto':
            print('    goto bb%s' % t['t'])
        else:
            print('    %s' % k)


if __name__ == '__main__':
    import json
    facts = core.Facts(sys.argv[1])
    for f in facts.find_fns(sys.argv[2]):
        show(f)
