#!/usr/bin/env python3
"""Developer aid: who.py <facts.json> <callee pattern>... -> callers (root fns) with lines"""
import sys, os
sys.path.insert(0, os.path.dirname(__file__))
import core
facts = core.Facts(sys.argv[1])
for pat in sys.argv[2:]:
    print('==', pat)
    for k, v in sorted(facts.callers_of(pat).items()):
        print('   ', k, [(c.fn.path.split('::')[-1] if c.fn.kind=='closure' else '', c.line, c.callee.split('::')[-1] if c.callee else None) for c in v])
