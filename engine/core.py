"""Fact loader, CFG utilities, symbolic slicing and the rule primitives (DESIGN.md section 3).

Everything here works on the JSON facts dumped by /verif/driver (the compiler's own MIR with
resolved callees); nothing in /repo is executed.
"""
import json
import re
from collections import defaultdict, deque


# ----------------------------------------------------------------------------- names
def strip_generics(p):
    """Remove `::<...>` turbofish segments and `<...>` argument lists (balanced)."""
    out = []
    depth = 0
    i = 0
    n = len(p)
    while i < n:
        c = p[i]
        if c == '<':
            # leading '<' of a qualified path `<A as B>::m` is kept (depth 0, at start or after space/`(`)
            if depth == 0 and (i == 0 or p[i - 1] in ' (,&'):
                out.append(c)
                i += 1
                continue
            depth += 1
            # drop a preceding '::'
            if depth == 1 and len(out) >= 2 and out[-1] == ':' and out[-2] == ':':
                out.pop()
                out.pop()
        elif c == '>':
            if depth > 0:
                # '->' inside fn types
                if p[i - 1] == '-':
                    pass
                else:
                    depth -= 1
            else:
                out.append(c)
        elif depth == 0:
            out.append(c)
        i += 1
    return ''.join(out)


_QUAL = re.compile(r'^<(.+) as (.+)>::(.+)$')


def alt_names(path):
    """All names under which a def path can be referred to by a rule pattern."""
    if path is None:
        return ()
    names = [path]
    sg = strip_generics(path)
    names.append(sg)
    # module-prefixed qualified form: `types::<impl types::Value for u8>::type_name`
    m = re.match(r'^(?:[\w:]+::)?<impl (.+) for (.+?)>::(.+)$', path)
    if m:
        tr, ty, item = m.groups()
        names.append(strip_generics(tr) + '::' + item)
        names.append(strip_generics(ty) + '::' + item)
        names.append('<%s as %s>::%s' % (strip_generics(ty), strip_generics(tr), item))
    m = _QUAL.match(path)
    if m:
        ty, tr, item = m.groups()
        ty = ty.lstrip('&').replace("'_ ", '').replace('mut ', '')
        names.append(strip_generics(ty) + '::' + item)
        names.append(strip_generics(tr) + '::' + item)
        names.append('<%s as %s>::%s' % (strip_generics(ty), strip_generics(tr), item))
    # inherent impl in a module other than the type's: `table::<impl Foo>::bar`
    m = re.match(r'^(?:[\w:]+::)?<impl (.+?)>::(.+)$', path)
    if m and ' for ' not in m.group(1):
        names.append(strip_generics(m.group(1)) + '::' + m.group(2))
    seen = []
    for x in names:
        if x not in seen:
            seen.append(x)
    return tuple(seen)


def name_matches(pattern, names):
    for x in names:
        if x == pattern or x.endswith('::' + pattern):
            return True
        # qualified patterns `<A as B>::m` are matched on suffix of A and B
        if pattern.startswith('<') and x.startswith('<'):
            mp = _QUAL.match(pattern)
            mx = _QUAL.match(x)
            if mp and mx and mp.group(3) == mx.group(3):
                a, b = mp.group(1), mp.group(2)
                xa, xb = mx.group(1), mx.group(2)
                if (xa == a or xa.endswith('::' + a)) and (xb == b or xb.endswith('::' + b)):
                    return True
    return False


class AnchorError(Exception):
    pass


# ----------------------------------------------------------------------------- facts
class CallSite:
    __slots__ = ('fn', 'bb', 't', 'names', 'declared', 'resolved')

    def __init__(self, fn, bb, t):
        self.fn = fn
        self.bb = bb
        self.t = t
        self.declared = t.get('fn')
        self.resolved = t.get('res')
        nm = []
        if self.resolved and self.resolved != 'drop_glue':
            nm.extend(alt_names(self.resolved))
        if self.declared:
            for x in alt_names(self.declared):
                if x not in nm:
                    nm.append(x)
        self.names = tuple(nm)

    @property
    def line(self):
        return self.t.get('fl') or self.t.get('l')

    @property
    def callee(self):
        if self.resolved and self.resolved != 'drop_glue' and not self.t.get('virt'):
            return self.resolved
        return self.declared

    def matches(self, pattern):
        if isinstance(pattern, (list, tuple, set, frozenset)):
            return any(name_matches(p, self.names) for p in pattern)
        return name_matches(pattern, self.names)

    def where(self):
        return '%s:%s' % (self.fn.file, self.line)

    def __repr__(self):
        return 'Call(%s @ %s bb%d)' % (self.callee, self.where(), self.bb)


class Fn:
    def __init__(self, d, facts):
        self.d = d
        self.facts = facts
        self.path = d['p']
        self.names = alt_names(self.path)
        self.kind = d['k']
        self.parent = d.get('par')
        self.file = d['f']
        self.line = d['l']
        self.vis = d.get('vis')
        self.mir = d['mir']
        self.blocks = self.mir['blocks']
        self.locals = self.mir['locals']
        self.argc = self.mir['argc']
        self.nb = len(self.blocks)
        self._succ = None
        self._pred = None
        self._calls = None
        self._defs = None
        self._names = None
        self._sym = {}
        self.closures = []  # direct child closures (Fn)

    # --- CFG
    def succ(self, bb):
        """normal (non-unwind) successors: list of (target, label)."""
        if self._succ is None:
            self._succ = [self._succ_of(i) for i in range(self.nb)]
        return self._succ[bb]

    def _succ_of(self, i):
        t = self.blocks[i]['t']
        k = t['k']
        if k == 'goto':
            return [(t['t'], None)]
        if k == 'sw':
            out = [(b, v) for v, b in t['ts']]
            out.append((t['ot'], 'otherwise'))
            return out
        if k in ('call', 'drop', 'assert'):
            if t.get('t') is not None:
                return [(t['t'], None)]
            return []
        return []

    def preds(self, bb):
        if self._pred is None:
            self._pred = [[] for _ in range(self.nb)]
            for i in range(self.nb):
                for (b, _l) in self.succ(i):
                    self._pred[b].append(i)
        return self._pred[bb]

    def unwind(self, bb):
        return self.blocks[bb]['t'].get('u')

    @property
    def calls(self):
        if self._calls is None:
            self._calls = []
            for i, b in enumerate(self.blocks):
                if b['t']['k'] in ('call', 'tailcall'):
                    self._calls.append(CallSite(self, i, b['t']))
        return self._calls

    def calls_to(self, pattern, include_cleanup=False):
        return [c for c in self.calls if c.matches(pattern) and (include_cleanup or not self.blocks[c.bb]['c'])]

    def family(self):
        """this fn plus all (transitively) nested closures."""
        out = [self]
        for c in self.closures:
            out.extend(c.family())
        return out

    def family_calls_to(self, pattern):
        out = []
        for f in self.family():
            out.extend(f.calls_to(pattern))
        return out

    def ret_blocks(self):
        return [i for i, b in enumerate(self.blocks) if b['t']['k'] == 'ret']

    def line_of(self, bb, idx=None):
        b = self.blocks[bb]
        if idx is not None and idx < len(b['s']):
            st = b['s'][idx]
            if st[0] in ('a', 'setdisc'):
                return st[3]
        t = b['t']
        return t.get('fl') or t.get('l')

    # --- local names
    def local_name(self, l):
        if self._names is None:
            self._names = {}
            for name, pl in self.mir['dbg']:
                if not pl[1]:
                    self._names.setdefault(pl[0], name)
            self._upvars = {}
            for name, pl in self.mir['dbg']:
                if pl[0] == 1 and pl[1]:
                    self._upvars[tuple(pl[1])] = name
        return self._names.get(l)

    def local_ty(self, l):
        return self.locals[l][0]

    # --- definitions
    @property
    def defs(self):
        """local -> list of ('stmt', bb, idx, rv) | ('call', bb, term)"""
        if self._defs is None:
            d = defaultdict(list)
            for i, b in enumerate(self.blocks):
                for j, st in enumerate(b['s']):
                    if st[0] == 'a' and not st[1][1]:
                        d[st[1][0]].append(('stmt', i, j, st[2]))
                t = b['t']
                if t['k'] == 'call' and not t['d'][1]:
                    d[t['d'][0]].append(('call', i, t))
            self._defs = d
        return self._defs

    def __repr__(self):
        return 'Fn(%s)' % self.path


class Facts:
    def __init__(self, path=None, data=None):
        if data is None:
            with open(path) as f:
                data = json.load(f)
        self.data = data
        self.crate = data['crate']
        self.version = data.get('version')
        self.debug_assertions = data.get('debug_assertions')
        self.fns = {}
        self.fn_list = []
        for d in data['fns']:
            f = Fn(d, self)
            self.fns[f.path] = f
            self.fn_list.append(f)
        for f in self.fn_list:
            if f.parent and f.parent in self.fns:
                # attach to nearest enclosing: path prefix
                par = self._nearest_parent(f)
                par.closures.append(f)
        self.adts = {a['p']: a for a in data['adts']}
        self.consts = {c['p']: c for c in data['consts']}
        self.impls = data['impls']
        self.unsafe_blocks = data['unsafe_blocks']
        self._callers = None
        self._fn_index = None

    def _nearest_parent(self, f):
        p = f.path
        while '::{closure#' in p:
            p = p[:p.rfind('::{closure#')]
            if p in self.fns:
                return self.fns[p]
        return self.fns[f.parent]

    # --- lookup
    def find_fns(self, pattern):
        return [f for f in self.fn_list if name_matches(pattern, f.names)]

    def fn(self, pattern):
        fs = self.find_fns(pattern)
        if len(fs) == 1:
            return fs[0]
        if not fs:
            raise AnchorError('anchor-missing: no function matches `%s`' % pattern)
        # prefer exact alt-name match
        ex = [f for f in fs if pattern in f.names]
        if len(ex) == 1:
            return ex[0]
        raise AnchorError('anchor-ambiguous: `%s` matches %s' % (pattern, [f.path for f in fs][:6]))

    def has_fn(self, pattern):
        return len(self.find_fns(pattern)) > 0

    def root_of(self, f):
        """outermost non-closure fn enclosing f."""
        while f.kind == 'closure':
            f = self._nearest_parent(f)
        return f

    # --- call graph
    def callers_of(self, pattern, root=True):
        """set of fn paths (closures attributed to their root fn when root=True) containing a direct
        non-cleanup call matching pattern."""
        out = defaultdict(list)
        for f in self.fn_list:
            for c in f.calls:
                if c.matches(pattern):
                    key = self.root_of(f).path if root else f.path
                    out[key].append(c)
        return out

    def call_graph(self):
        """fn path -> set of local callee paths (resolved; virtual/generic trait calls expanded to all
        local impls of the trait method); closures constructed in a fn count as called by it."""
        if self._callers is not None:
            return self._callers
        # index trait-method impls: method name -> trait -> impl fn paths
        trait_impls = defaultdict(list)
        for f in self.fn_list:
            it = f.d.get('impl_trait')
            if it:
                trait_impls[(it, f.path.rsplit('::', 1)[-1])].append(f.path)
        g = defaultdict(set)
        for f in self.fn_list:
            for cl in f.closures:
                g[f.path].add(cl.path)
            for c in f.calls:
                tgt = None
                if c.resolved and c.resolved in self.fns and not c.t.get('virt'):
                    tgt = c.resolved
                    g[f.path].add(tgt)
                elif c.declared:
                    if c.declared in self.fns and not c.t.get('trait'):
                        g[f.path].add(c.declared)
                    tr = c.t.get('trait')
                    # expand to every local impl only when the callee could not be resolved statically
                    if tr and (c.resolved is None or c.t.get('virt')):
                        m = c.declared.rsplit('::', 1)[-1]
                        for p in trait_impls.get((tr, m), ()):
                            g[f.path].add(p)
                        if c.declared in self.fns:  # provided method
                            g[f.path].add(c.declared)
        self._callers = g
        return g

    def reachable_from(self, roots):
        g = self.call_graph()
        seen = set()
        dq = deque(roots)
        while dq:
            x = dq.popleft()
            if x in seen:
                continue
            seen.add(x)
            for y in g.get(x, ()):
                if y not in seen:
                    dq.append(y)
        return seen


# ----------------------------------------------------------------------------- symbolic slicing
TRANSPARENT = (
    'Deref::deref', 'DerefMut::deref_mut', 'AsRef::as_ref', 'AsMut::as_mut', 'Borrow::borrow',
    'BorrowMut::borrow_mut', 'Option::as_ref', 'Option::as_mut', 'Result::as_ref', 'Result::as_mut',
    'Option::as_deref', 'Option::as_deref_mut', 'Clone::clone', 'Option::copied', 'Option::cloned', 'Into::into', 'From::from',
)
OKLIKE = {'Ok', 'Some', 'Continue'}
ERRLIKE = {'Err', 'None', 'Break'}


def _is_local_operand(o):
    return o[0] in ('c', 'm')


class Sym:
    """Resolve MIR locals of one function to small symbolic terms.

    term :=  ('call', bb)                 result of the call terminating block bb
           | ('arg', local)
           | ('place', term, projs)       projection of a term
           | ('not', term) | ('disc', term, enum, vars) | ('cmp', op, term, term)
           | ('const', ty, val) | ('agg', adt, variant) | ('unknown', local)
           | ('phi', local)               multiply-assigned local
    """

    def __init__(self, fn):
        self.fn = fn
        self.memo = {}
        self._mb = None

    def operand(self, o, depth=0):
        if o[0] == 'k':
            return ('const', o[1], o[2] if len(o) > 2 else None)
        return self.place(o[1], depth)

    def mut_borrowed(self):
        if self._mb is None:
            mb = set()
            for b in self.fn.blocks:
                for st in b['s']:
                    if st[0] == 'a' and st[2]['k'] in ('ref', 'rawptr') and st[2].get('m') and not st[2]['p'][1]:
                        mb.add(st[2]['p'][0])
            self._mb = mb
        return self._mb

    def place(self, pl, depth=0):
        base = self.local(pl[0], depth)
        projs = tuple(pl[1])
        if not projs:
            return base
        if base[0] == 'place':
            return ('place', base[1], base[2] + projs)
        return ('place', base, projs)

    def local(self, l, depth=0):
        if l in self.memo:
            return self.memo[l]
        if depth > 40:
            return ('unknown', l)
        fn = self.fn
        ds = fn.defs.get(l, [])
        if l in self.mut_borrowed() and fn.local_ty(l) in ('bool',) :
            # a flag handed out by `&mut`: its value is whatever the callee left there
            r = ('phi', l)
            self.memo[l] = r
            return r
        if 1 <= l <= fn.argc and not ds:
            r = ('arg', l)
        elif len(ds) != 1:
            r = ('phi', l) if ds else ('unknown', l)
        else:
            r = self.def_term(ds[0], l, depth)
        self.memo[l] = r
        return r

    def def_term(self, d, l, depth=0):
        if d[0] == 'call':
            return ('call', d[1])
        rv = d[3]
        k = rv['k']
        if k == 'use':
            return self.operand(rv['o'], depth + 1)
        if k in ('ref', 'rawptr'):
            # a reference to a place denotes the place (we only care which object it is)
            return self.place(rv['p'], depth + 1)
        if k == 'un' and rv['op'] == 'Not':
            return ('not', self.operand(rv['o'], depth + 1))
        if k == 'disc':
            return ('disc', self.place(rv['p'], depth + 1), rv.get('enum'), rv.get('vars'))
        if k == 'bin':
            return ('cmp', rv['op'], self.operand(rv['o'][0], depth + 1), self.operand(rv['o'][1], depth + 1))
        if k == 'cast':
            return self.operand(rv['o'], depth + 1)
        if k == 'agg':
            return ('agg', rv['a'], rv['v'], d[1], d[2])
        return ('unknown', l)

    # canonical, human-readable subject for a term
    def describe(self, term, depth=0):
        fn = self.fn
        k = term[0]
        if depth > 20:
            return '?'
        if k == 'arg':
            return fn.local_name(term[1]) or ('_%d' % term[1])
        if k in ('phi', 'unknown'):
            return fn.local_name(term[1]) or ('_%d' % term[1])
        if k == 'call':
            cs = CallSite(fn, term[1], fn.blocks[term[1]]['t'])
            if cs.matches(TRANSPARENT) and cs.t['a']:
                return self.describe(self.operand(cs.t['a'][0]), depth + 1)
            return 'call:%s' % strip_generics(cs.callee or '?')
        if k == 'place':
            base = self.describe(term[1], depth + 1)
            # closure upvars: (*_1).N -> captured variable name
            if term[1] == ('arg', 1) and fn.kind == 'closure':
                fn.local_name(0)
                for n in range(len(term[2]), 0, -1):
                    nm = fn._upvars.get(tuple(term[2][:n]))
                    if nm:
                        rest = [p for p in term[2][n:] if p != '*']
                        return nm + ''.join(rest)
            ps = [p for p in term[2] if p != '*']
            return base + ''.join(ps)
        if k == 'not':
            return '!' + self.describe(term[1], depth + 1)
        if k == 'disc':
            return 'disc(' + self.describe(term[1], depth + 1) + ')'
        if k == 'cmp':
            return '(%s %s %s)' % (self.describe(term[2], depth + 1), term[1], self.describe(term[3], depth + 1))
        if k == 'const':
            return 'const %r' % (term[2],)
        if k == 'agg':
            return 'agg:%s::%s' % (term[1], term[2])
        return '?'


def sym(fn):
    if 'sym' not in fn._sym:
        fn._sym['sym'] = Sym(fn)
    return fn._sym['sym']


class Fact:
    """On some CFG edge: `subject` has a value in `vals` (variant names or 'true'/'false'),
    or (cmp=True) the edge is one outcome of a comparison involving subject."""
    __slots__ = ('kind', 'call', 'desc', 'vals', 'cmp', 'term')

    def __init__(self, kind, call, desc, vals, cmp=False, term=None):
        self.kind = kind      # 'call' | 'place'
        self.call = call      # CallSite or None
        self.desc = desc      # canonical description string
        self.vals = frozenset(vals)
        self.cmp = cmp
        self.term = term

    def __repr__(self):
        return 'Fact(%s in %s%s)' % (self.desc, sorted(self.vals), ' cmp' if self.cmp else '')


def _variant_map(vars_):
    return {v: n for v, n in (vars_ or [])}


def edge_facts(fn, bb):
    """For a switch/assert block: list over successor index -> [Fact]."""
    key = ('ef', bb)
    if key in fn._sym:
        return fn._sym[key]
    t = fn.blocks[bb]['t']
    S = sym(fn)
    res = []
    if t['k'] == 'sw':
        term = S.operand(t['o'])
        succ = fn.succ(bb)
        isbool = t.get('oty') == 'bool'
        listed = [v for v, _b in t['ts']]
        for (tb, label) in succ:
            if isbool:
                if label == 'otherwise':
                    vals = {'true'} if '0' in listed else {'false'}
                    if '0' in listed and '1' in listed:
                        vals = set()
                else:
                    vals = {'false'} if label == '0' else {'true'}
                fs = _facts_for(fn, S, term, vals, 'bool')
                fs.extend(_named_alias_facts(fn, t['o'], vals))
                res.append(fs)
            else:
                fs = _facts_for_value(fn, S, term, label, listed)
                # the discriminated place, under its user-visible name
                o = t['o']
                if term[0] == 'disc' and o[0] in ('c', 'm') and not o[1][1]:
                    ds = fn.defs.get(o[1][0], [])
                    if len(ds) == 1 and ds[0][0] == 'stmt' and ds[0][3]['k'] == 'disc':
                        pl = ds[0][3]['p']
                        nm = fn.local_name(pl[0])
                        if nm:
                            desc = nm + ''.join(x for x in pl[1] if x != '*')
                            vm = _variant_map(term[3])
                            if label == 'otherwise':
                                names = {n for v, n in vm.items() if v not in listed}
                            else:
                                names = {vm.get(label, '#' + label)}
                            if not any(f_.kind == 'place' and f_.desc == desc for f_ in fs):
                                fs.append(Fact('place', None, desc, names))
                res.append(fs)
    elif t['k'] == 'assert':
        term = S.operand(t['o'])
        vals = {'true'} if t['e'] else {'false'}
        res.append(_facts_for(fn, S, term, vals, 'bool'))
    fn._sym[key] = res
    return res


def _named_alias_facts(fn, o, vals):
    """a bool switch operand that is (a copy / negation of) a user-named local also yields a
    fact about that name: `let corrupted = a != b; .. if corrupted`."""
    out = []
    if o[0] not in ('c', 'm') or o[1][1]:
        return out
    cur = o[1][0]
    v = set(vals)
    for _ in range(8):
        nm = fn.local_name(cur)
        if nm:
            out.append(Fact('place', None, nm, v))
        ds = fn.defs.get(cur, [])
        if len(ds) != 1 or ds[0][0] != 'stmt':
            break
        rv = ds[0][3]
        if rv['k'] == 'use' and rv['o'][0] in ('c', 'm') and not rv['o'][1][1]:
            cur = rv['o'][1][0]
        elif rv['k'] == 'un' and rv['op'] == 'Not' and rv['o'][0] in ('c', 'm') and not rv['o'][1][1]:
            cur = rv['o'][1][0]
            v = _flip(v)
        else:
            break
    return out


def _flip(vals):
    m = {'true': 'false', 'false': 'true'}
    return {m.get(v, v) for v in vals}


def _facts_for_value(fn, S, term, label, listed):
    """switch on a non-bool value."""
    if term[0] == 'disc':
        vm = _variant_map(term[3])
        if label == 'otherwise':
            names = {n for v, n in vm.items() if v not in listed}
        else:
            names = {vm.get(label, '#' + label)}
        return _facts_for(fn, S, term[1], names, 'variant')
    # integer switch on something else: comparison-like
    out = []
    _collect_cmp(fn, S, term, out)
    return out


def _collect_cmp(fn, S, term, out, depth=0):
    if depth > 12:
        return
    k = term[0]
    if k == 'call':
        cs = CallSite(fn, term[1], fn.blocks[term[1]]['t'])
        if cs.matches('Atomic::load') and cs.t['a']:
            a0 = S.operand(cs.t['a'][0])
            out.append(Fact('place', None, S.describe(a0), set(), cmp=True, term=a0))
            return
        out.append(Fact('call', cs, S.describe(term), set(), cmp=True, term=term))
        for a in cs.t['a']:
            _collect_cmp(fn, S, S.operand(a), out, depth + 1)
    elif k in ('arg', 'phi', 'unknown'):
        out.append(Fact('place', None, S.describe(term), set(), cmp=True, term=term))
    elif k == 'place':
        out.append(Fact('place', None, S.describe(term), set(), cmp=True, term=term))
        _collect_cmp(fn, S, term[1], out, depth + 1)
    elif k == 'not':
        _collect_cmp(fn, S, term[1], out, depth + 1)
    elif k == 'disc':
        _collect_cmp(fn, S, term[1], out, depth + 1)
    elif k == 'cmp':
        _collect_cmp(fn, S, term[2], out, depth + 1)
        _collect_cmp(fn, S, term[3], out, depth + 1)
    elif k == 'agg' and len(term) >= 5:
        st = fn.blocks[term[3]]['s'][term[4]]
        nm = fn.local_name(st[1][0]) if not st[1][1] else None
        if nm:
            out.append(Fact('place', None, nm, set(), cmp=True, term=term))
        for o in st[2]['o']:
            _collect_cmp(fn, S, S.operand(o), out, depth + 1)


_CMP_OPS = ('Eq', 'Ne', 'Lt', 'Le', 'Gt', 'Ge')
_CMP_CALLS = ('PartialEq::eq', 'PartialEq::ne', 'PartialOrd::lt', 'PartialOrd::le', 'PartialOrd::gt', 'PartialOrd::ge')


def is_comparison_helper(facts, path):
    """a function or closure of this crate whose return value is, on its single return path, a
    comparison of (projections of) its own parameters: `|a, b| a != b`, `fn differs(a, b) -> bool`."""
    if facts is None or not path:
        return False
    cache = facts.__dict__.setdefault('_cmp_helpers', {})
    if path in cache:
        return cache[path]
    cache[path] = False
    g = facts.fns.get(path)
    if g is None or g.nb > 8:
        return False
    ds = g.defs.get(0, [])
    if len(ds) != 1:
        return False
    S = sym(g)
    t = ('call', ds[0][1]) if ds[0][0] == 'call' else S.def_term(ds[0], 0)

    def from_args(x, depth=0):
        if depth > 6:
            return False
        if x[0] == 'arg':
            return True
        if x[0] == 'place':
            return from_args(x[1], depth + 1)
        if x[0] == 'const':
            return True
        return False
    ok = False
    if t[0] == 'cmp' and t[1] in _CMP_OPS:
        ok = from_args(t[2]) and from_args(t[3]) and (t[2][0] != 'const' or t[3][0] != 'const')
    elif t[0] == 'call':
        cs = CallSite(g, t[1], g.blocks[t[1]]['t'])
        if cs.matches(_CMP_CALLS) and len(cs.t['a']) == 2:
            ok = all(from_args(S.operand(a)) for a in cs.t['a'])
    cache[path] = ok
    return ok



def _facts_for(fn, S, term, vals, mode, depth=0):
    """term (bool or enum valued) takes a value in vals on this edge."""
    out = []
    if depth > 12:
        return out
    # a value looked at through a plain reference (`if let Err(_) = &result`) is the value itself
    if term[0] == 'place' and term[2] and all(p == '*' for p in term[2]) and term[1][0] in ('call', 'phi', 'arg'):
        alias = _facts_for(fn, S, term[1], vals, mode, depth + 1)
        if alias:
            return alias
    k = term[0]
    if k == 'not':
        return _facts_for(fn, S, term[1], _flip(vals), mode, depth + 1)
    if k == 'call':
        cs = CallSite(fn, term[1], fn.blocks[term[1]]['t'])
        args = cs.t['a']
        a0 = S.operand(args[0]) if args else None
        # predicates that translate into a fact about their receiver
        table = (
            ('Result::is_ok', {'true': {'Ok'}, 'false': {'Err'}}),
            ('Result::is_err', {'true': {'Err'}, 'false': {'Ok'}}),
            ('Option::is_some', {'true': {'Some'}, 'false': {'None'}}),
            ('Option::is_none', {'true': {'None'}, 'false': {'Some'}}),
        )
        for pat, m in table:
            if cs.matches(pat) and a0 is not None:
                nv = set()
                for v in vals:
                    nv |= m.get(v, set())
                return _facts_for(fn, S, a0, nv, 'variant', depth + 1)
        if cs.matches('Try::branch') and a0 is not None:
            ty = (cs.t.get('ga') or [''])[0]
            isopt = ty.startswith('std::option::Option<') or ty.startswith('core::option::Option<')
            nv = set()
            for v in vals:
                if v == 'Continue':
                    nv.add('Some' if isopt else 'Ok')
                elif v == 'Break':
                    nv.add('None' if isopt else 'Err')
            return _facts_for(fn, S, a0, nv, 'variant', depth + 1)
        if cs.matches(('Result::map_err', 'Result::map', 'Option::map', 'Result::as_ref', 'Result::as_mut',
                       'Option::as_ref', 'Option::as_mut', 'Option::as_deref', 'Option::take',
                       'Deref::deref', 'DerefMut::deref_mut', 'Clone::clone', 'Option::copied',
                       'Option::cloned')) and a0 is not None:
            out.extend(_facts_for(fn, S, a0, vals, mode, depth + 1))
            if not cs.matches(('Result::map_err', 'Result::map', 'Option::map')):
                return out
            return out
        if cs.matches('Result::ok') and a0 is not None:
            m = {'Some': 'Ok', 'None': 'Err'}
            return _facts_for(fn, S, a0, {m.get(v, v) for v in vals}, 'variant', depth + 1)
        if cs.matches(('Option::ok_or', 'Option::ok_or_else')) and a0 is not None:
            m = {'Ok': 'Some', 'Err': 'None'}
            return _facts_for(fn, S, a0, {m.get(v, v) for v in vals}, 'variant', depth + 1)
        if cs.matches('Atomic::load') and a0 is not None:
            # an atomic flag read: a fact about the field itself
            out.append(Fact('place', None, S.describe(a0), vals, term=a0))
            return out
        if cs.matches(('PartialEq::eq', 'PartialEq::ne', 'PartialOrd::lt', 'PartialOrd::le', 'PartialOrd::gt',
                       'PartialOrd::ge', 'Arc::ptr_eq', 'ptr::eq')):
            o = []
            for a in args:
                _collect_cmp(fn, S, S.operand(a), o)
            return o
        if is_comparison_helper(fn.facts, cs.resolved or cs.declared):
            # a local helper / closure whose whole result is a comparison of its parameters
            o = []
            for a in args:
                _collect_cmp(fn, S, S.operand(a), o)
            return o
        out.append(Fact('call', cs, S.describe(term), vals, term=term))
        return out
    if k == 'cmp':
        o = []
        _collect_cmp(fn, S, term, o)
        return o
    if k == 'disc':
        # bool-ish switch over a discriminant value (rare)
        return out
    if k == 'place' and term[1][0] == 'call' and tuple(term[2]) in (('@Continue', '.0'), ('@Ok', '.0'), ('@Some', '.0')):
        # the payload of a Result/Option returned by a call: `f()? == true`, `Ok(true) => ..`
        base = term[1]
        cs = CallSite(fn, base[1], fn.blocks[base[1]]['t'])
        if term[2][0] == '@Continue' and cs.matches('Try::branch') and cs.t['a']:
            inner = S.operand(cs.t['a'][0])
            # see through map_err & co
            hops = 0
            while inner[0] == 'call' and hops < 6:
                ics = CallSite(fn, inner[1], fn.blocks[inner[1]]['t'])
                if ics.matches(('Result::map_err', 'Result::as_ref', 'Option::as_ref', 'Option::ok_or', 'Option::ok_or_else')) and ics.t['a']:
                    inner = S.operand(ics.t['a'][0])
                    hops += 1
                else:
                    break
            if inner[0] == 'call':
                ics = CallSite(fn, inner[1], fn.blocks[inner[1]]['t'])
                out.append(Fact('call', ics, S.describe(inner), vals, term=inner))
                return out
            out.append(Fact('place', None, S.describe(inner), vals, term=inner))
            return out
        if term[2][0] != '@Continue':
            out.append(Fact('call', cs, S.describe(base), vals, term=base))
            return out
    if k == 'phi' and fn.local_ty(term[1]) == 'bool' and term[1] not in S.mut_borrowed():
        # `let x = a && f();` : x is assigned a constant on the short-circuit arm and the call result on
        # the other. An edge that excludes every constant assignment is an edge about the other one.
        ambiguous = False
        nonconst = []
        for d in fn.defs.get(term[1], []):
            if d[0] == 'stmt' and d[3]['k'] == 'use' and d[3]['o'][0] == 'k' and isinstance(d[3]['o'][2], bool):
                if ('true' if d[3]['o'][2] else 'false') in vals:
                    ambiguous = True
            else:
                nonconst.append(d)
        if not ambiguous and len(nonconst) == 1:
            out.extend(_facts_for(fn, S, S.def_term(nonconst[0], term[1], depth + 1), vals, mode, depth + 1))
    if k in ('place', 'arg', 'phi', 'unknown'):
        out.append(Fact('place', None, S.describe(term), vals, term=term))
        # a field of the result of a call is also a (weaker) fact about the call: comparison-like
        return out
    return out


# ----------------------------------------------------------------------------- guards
class Guard:
    """Specification of guard edges. Exactly one of call / place is given.

    Guard(call='PageAllocator::uncommitted', vals={'true'})
    Guard(call='PagedCachedFile::check_io_errors', vals={'Ok'})
    Guard(place='two_phase', vals={'true'})           # named local / parameter / field path suffix
    Guard(place='self.durability', cmp=True)           # polarity-free comparison involving the subject
    """

    def __init__(self, call=None, place=None, vals=None, cmp=False, where=None):
        self.call = call
        self.place = place
        self.vals = frozenset(vals or ())
        self.cmp = cmp
        self.where = where  # optional predicate(Fact) -> bool

    def matches(self, fact):
        if self.call is not None:
            if fact.kind != 'call' or not fact.call.matches(self.call):
                return False
        else:
            if fact.kind == 'call':
                # allow place guards over the description of transparent call chains
                return False
            d = fact.desc
            p = self.place
            if not (d == p or d.endswith('.' + p) or d.endswith(p) and (len(d) == len(p) or d[-len(p) - 1] in '.')):
                return False
        if self.where is not None and not self.where(fact):
            return False
        if self.cmp:
            return fact.cmp
        if fact.cmp:
            return False
        return bool(fact.vals) and fact.vals <= self.vals

    def __repr__(self):
        s = ('call %s' % (self.call,)) if self.call is not None else ('place %s' % self.place)
        return 'Guard(%s %s)' % (s, 'cmp' if self.cmp else sorted(self.vals))


def ok_summary(facts, pattern, depth=3):
    """local functions whose success return implies that a call matching `pattern` returned
    Ok/Some: every success path crosses the Ok edge of such a call (or of a member), or returns the
    call's result directly. Used so that extracting `x()?; y()?` into a helper keeps the guards
    `ok(x)` / `ok(y)` recognisable at the helper's call site."""
    key = pattern if isinstance(pattern, str) else tuple(pattern)
    cache = facts.__dict__.setdefault('_ok_summaries', {})
    if key in cache:
        return cache[key]
    member = set()
    cache[key] = member  # guards recursion
    frontier = {facts.root_of(c.fn).path for sites in facts.callers_of(pattern).values() for c in sites}
    for _round in range(depth):
        added = set()
        for path in sorted(frontier):
            f = facts.fns.get(path)
            if f is None or f.kind == 'closure' or path in member:
                continue
            if any(name_matches(p_, f.names) for p_ in ([pattern] if isinstance(pattern, str) else pattern)):
                continue
            if not (f.d.get('ret') or '').startswith(('std::result::Result<', 'core::result::Result<', 'std::option::Option<', 'core::option::Option<')):
                continue
            pats = ([pattern] if isinstance(pattern, str) else list(pattern)) + sorted(member)
            g = Guard(call=pats, vals={'Ok', 'Some'})
            edges = set()
            for bb in range(f.nb):
                if f.blocks[bb]['t']['k'] not in ('sw', 'assert'):
                    continue
                for si, fs in enumerate(edge_facts(f, bb)):
                    if any(g.matches(x) for x in fs):
                        edges.add((bb, si))
            tail = {c.bb for c in f.calls if c.matches(pats) and c.t['d'] == [0, []]}
            if not edges and not tail:
                continue
            r = reach(f, cut_edges=edges, cut_blocks=tail | error_blocks(f))
            if not any(rb in r['term'] for rb in f.ret_blocks()):
                added.add(path)
        if not added:
            break
        member |= added
        frontier = set()
        for a in added:
            for sites in facts.callers_of(a).values():
                for c in sites:
                    frontier.add(facts.root_of(c.fn).path)
    return member


def guard_edges(fn, guards):
    """set of (bb, succ_index) edges on which one of the guards holds."""
    ext = []
    for g in guards:
        ext.append(g)
        if g.call is not None and not g.cmp and g.vals and g.vals <= {'Ok', 'Some'} and g.where is None:
            summ = ok_summary(fn.facts, g.call)
            if summ:
                ext.append(Guard(call=sorted(summ), vals=g.vals))
    guards = ext
    edges = _guard_edges_basic(fn, guards)
    # a test moved into a local predicate: `if self.is_usable() { .. }` where is_usable() can only
    # return true when the guarded place has the required value
    plain = [g for g in guards if g.place is not None and not g.cmp and g.where is None and g.vals and g.vals <= {'true', 'false'}]
    if plain:
        for c in fn.calls:
            if fn.blocks[c.bb]['c'] or c.t.get('dty') != 'bool' or not c.callee or c.t.get('virt'):
                continue
            g_fn = fn.facts.fns.get(c.callee)
            if g_fn is None or g_fn is fn:
                continue
            if any(_predicate_implies(g_fn, g) for g in plain):
                for bb in range(fn.nb):
                    if fn.blocks[bb]['t']['k'] != 'sw':
                        continue
                    for si, facts in enumerate(edge_facts(fn, bb)):
                        if any(f.kind == 'call' and f.call is not None and f.call.bb == c.bb and not f.cmp and f.vals == frozenset({'true'}) for f in facts):
                            edges.add((bb, si))
    return edges


def _guard_edges_basic(fn, guards):
    edges = set()
    for bb in range(fn.nb):
        k = fn.blocks[bb]['t']['k']
        if k not in ('sw', 'assert'):
            continue
        for si, facts in enumerate(edge_facts(fn, bb)):
            for f in facts:
                if any(g.matches(f) for g in guards):
                    edges.add((bb, si))
                    break
    return edges


def _predicate_implies(g_fn, guard):
    """g_fn returns bool; does `true` imply the guard (a place of `self` having a bool value)?
    Every assignment of the return place is a constant false, or the (negated) guarded place
    itself, or sits behind one of the guard's own edges inside g_fn."""
    key = ('pred', guard.place, tuple(sorted(guard.vals)))
    if key in g_fn._sym:
        return g_fn._sym[key]
    g_fn._sym[key] = False  # recursion guard
    if g_fn.local_ty(0) != 'bool':
        return False
    S = sym(g_fn)
    inner = _guard_edges_basic(g_fn, [guard])
    r = reach(g_fn, cut_edges=inner) if inner else None
    sites = 0
    ok = True
    want_true = guard.vals == frozenset({'true'})

    def is_place(o):
        if o[0] == 'k':
            return False
        d = S.describe(S.operand(o))
        probe = Fact('place', None, d, guard.vals)
        return guard.matches(probe)

    for bi, b in enumerate(g_fn.blocks):
        if b['c']:
            continue
        for si, st in enumerate(b['s']):
            if st[0] != 'a' or st[1] != [0, []]:
                continue
            sites += 1
            rv = st[2]
            if rv['k'] == 'use' and rv['o'][0] == 'k' and rv['o'][2] is False:
                continue
            if rv['k'] == 'un' and rv.get('op') == 'Not' and not want_true and is_place(rv['o']):
                continue
            if rv['k'] == 'use' and want_true and is_place(rv['o']):
                continue
            if r is not None and not point_reached(g_fn, r, bi, si):
                continue
            ok = False
    for c in g_fn.calls:
        if c.t['d'] == [0, []] and not g_fn.blocks[c.bb]['c']:
            ok = False  # the verdict of another call: not followed
    res = ok and sites > 0
    g_fn._sym[key] = res
    return res


# ----------------------------------------------------------------------------- reachability
def tracked_bools(fn):
    """materialised condition temporaries: bool locals every assignment of which is a constant,
    that have a StorageDead (drop flags do not) and that are only read by switches / copies."""
    key = 'tracked'
    if key in fn._sym:
        return fn._sym[key]
    cand = {}
    sd = set()
    for b in fn.blocks:
        for st in b['s']:
            if st[0] == 'sd':
                sd.add(st[1])
    mb = sym(fn).mut_borrowed()
    for l, ds in fn.defs.items():
        if fn.local_ty(l) != 'bool' or l not in sd or len(ds) < 2 or l in mb:
            continue
        ok = True
        for d in ds:
            if d[0] != 'stmt':
                ok = False
                break
            rv = d[3]
            if not (rv['k'] == 'use' and rv['o'][0] == 'k' and isinstance(rv['o'][2], bool)):
                ok = False
                break
        if ok:
            cand[l] = True
    fn._sym[key] = frozenset(cand)
    return fn._sym[key]


def stable_switch_roots(fn):
    """for every bool switch: (root local, negated) when the operand is a copy / negation chain of a
    bool local with exactly one definition that is never mutably borrowed (an immutable `let`): two
    tests of such a local are correlated. Also: local -> set of blocks that (re)define it."""
    key = 'stable_roots'
    if key in fn._sym:
        return fn._sym[key]
    S = sym(fn)
    mb = S.mut_borrowed()
    tracked = tracked_bools(fn)
    roots = {}
    defblocks = {}
    for bb in range(fn.nb):
        t = fn.blocks[bb]['t']
        if t['k'] != 'sw' or t.get('oty') != 'bool':
            continue
        o = t['o']
        if o[0] not in ('c', 'm') or o[1][1]:
            continue
        cur = o[1][0]
        neg = False
        root = None
        for _ in range(10):
            ds = fn.defs.get(cur, [])
            if cur in mb or len(ds) != 1:
                break
            if cur not in tracked and fn.local_ty(cur) == 'bool':
                root = (cur, neg)
            d = ds[0]
            if d[0] == 'stmt' and d[3]['k'] == 'use' and d[3]['o'][0] in ('c', 'm') and not d[3]['o'][1][1]:
                cur = d[3]['o'][1][0]
            elif d[0] == 'stmt' and d[3]['k'] == 'un' and d[3]['op'] == 'Not' and d[3]['o'][0] in ('c', 'm') and not d[3]['o'][1][1]:
                cur = d[3]['o'][1][0]
                neg = not neg
            else:
                break
        if root is not None:
            # only roots tested more than once matter; collect anyway
            roots[bb] = root
            l = root[0]
            d = fn.defs[l][0]
            defblocks.setdefault(l, set()).add(d[1])
    # keep only locals tested by at least two switches
    cnt = defaultdict(int)
    for bb, (l, _n) in roots.items():
        cnt[l] += 1
    roots = {bb: r for bb, r in roots.items() if cnt[r[0]] >= 2}
    fn._sym[key] = (roots, defblocks)
    return fn._sym[key]


def reach(fn, start=None, cut_blocks=(), cut_edges=(), cut_points=(), follow_unwind=False, max_states=400000):
    """Path-sensitive (w.r.t. materialised bool temporaries) forward reachability.

    start: None (entry) or (bb, idx) point: execution starts *after* that point.
    cut_blocks: blocks whose terminator may not be executed (paths die there; the block's
                statements are still reached).
    cut_edges: set of (bb, succ_index).
    cut_points: set of (bb, idx) statements that may not be executed.
    Returns dict bb -> minimal index reached in that block (0 if entered from the top), i.e. the
    set of block entries reachable; plus set of (bb) whose terminator is reached in 'term'.
    """
    tracked = tracked_bools(fn)
    sroots, sdefblocks = stable_switch_roots(fn)
    sdef_of_block = defaultdict(set)
    for l_, bs_ in sdefblocks.items():
        for b_ in bs_:
            sdef_of_block[b_].add(l_)
    cut_blocks = set(cut_blocks)
    cut_edges = set(cut_edges)
    cpb = defaultdict(set)
    for (b, i) in cut_points:
        cpb[b].add(i)
    entered = {}
    upto = {}
    term_reached = set()
    edges_taken = set()
    if start is None:
        init = (0, 0, frozenset())
    else:
        init = (start[0], start[1] + 1, frozenset())
    seen = set([init])
    dq = deque([init])
    while dq:
        bb, idx, val = dq.popleft()
        if len(seen) > max_states:
            raise RuntimeError('state explosion in %s' % fn.path)
        b = fn.blocks[bb]
        prev = entered.get(bb)
        if prev is None or idx < prev:
            entered[bb] = idx
        v = dict(val)
        # passing the definition of a correlated local forgets what was learnt about it
        for l_ in sdef_of_block.get(bb, ()):
            v.pop(('s', l_), None)
        dead = False
        stmts = b['s']
        for j in range(idx, len(stmts)):
            if j in cpb.get(bb, ()):
                dead = True
                upto[bb] = max(upto.get(bb, 0), j)
                break
            st = stmts[j]
            if st[0] == 'a' and not st[1][1] and st[1][0] in tracked:
                v[st[1][0]] = st[2]['o'][2]
            elif st[0] == 'sd' and st[1] in v:
                del v[st[1]]
        if dead:
            continue
        upto[bb] = max(upto.get(bb, 0), len(stmts))
        if len(stmts) in cpb.get(bb, ()):
            continue
        term_reached.add(bb)
        if bb in cut_blocks:
            continue
        t = b['t']
        succ = fn.succ(bb)
        allowed = None
        if t['k'] == 'sw' and t['o'][0] in ('c', 'm') and not t['o'][1][1] and t['o'][1][0] in v:
            known = v[t['o'][1][0]]
            want = '1' if known else '0'
            # choose matching edge
            allowed = None
            for si, (tb, label) in enumerate(succ):
                if label == want:
                    allowed = si
            if allowed is None:
                for si, (tb, label) in enumerate(succ):
                    if label == 'otherwise':
                        allowed = si
            if t['o'][0] == 'm':
                v.pop(t['o'][1][0], None)
        sroot = sroots.get(bb) if allowed is None and t['k'] == 'sw' else None
        if sroot is not None and ('s', sroot[0]) in v:
            known = v[('s', sroot[0])]
            if sroot[1]:
                known = not known
            want = '1' if known else '0'
            for si, (tb, label) in enumerate(succ):
                if label == want:
                    allowed = si
            if allowed is None:
                for si, (tb, label) in enumerate(succ):
                    if label == 'otherwise':
                        allowed = si
            sroot = None
        fv = frozenset(v.items())
        for si, (tb, label) in enumerate(succ):
            if allowed is not None and si != allowed:
                continue
            if (bb, si) in cut_edges:
                continue
            edges_taken.add((bb, si))
            if sroot is not None:
                # learn the value of the correlated local on this edge
                listed = [lb for _tb, lb in succ if lb != 'otherwise']
                if label == 'otherwise':
                    val_ = False if '1' in listed else True
                else:
                    val_ = label != '0'
                if sroot[1]:
                    val_ = not val_
                v2 = dict(v)
                v2[('s', sroot[0])] = val_
                stt = (tb, 0, frozenset(v2.items()))
            else:
                stt = (tb, 0, fv)
            if stt not in seen:
                seen.add(stt)
                dq.append(stt)
        if follow_unwind:
            u = t.get('u')
            if u is not None:
                stt = (u, 0, fv)
                if stt not in seen:
                    seen.add(stt)
                    dq.append(stt)
    return {'entered': entered, 'upto': upto, 'term': term_reached, 'edges': edges_taken, 'states': len(seen)}


def point_reached(fn, r, bb, idx):
    """is statement idx (or the terminator when idx == len(stmts)) of bb executed in reach result r?"""
    e = r['entered'].get(bb)
    if e is None or e > idx:
        return False
    if idx >= len(fn.blocks[bb]['s']):
        return bb in r['term']
    return idx < r['upto'].get(bb, 0)


def find_path(fn, target_bb, cut_blocks=(), cut_edges=(), start=None):
    """one (path-insensitive) witness path of blocks from start to target, for diagnostics."""
    cut_blocks = set(cut_blocks)
    cut_edges = set(cut_edges)
    s = 0 if start is None else start[0]
    prev = {s: None}
    dq = deque([s])
    while dq:
        b = dq.popleft()
        if b == target_bb and (b != s or start is None):
            break
        if b in cut_blocks and not (start is not None and b == s):
            continue
        for si, (tb, _l) in enumerate(fn.succ(b)):
            if (b, si) in cut_edges:
                continue
            if tb not in prev:
                prev[tb] = b
                dq.append(tb)
    if target_bb not in prev:
        return []
    path = []
    x = target_bb
    while x is not None:
        path.append(x)
        x = prev[x]
    path.reverse()
    return path


def path_lines(fn, path):
    out = []
    last = None
    for b in path:
        ln = fn.blocks[b]['t'].get('fl') or fn.blocks[b]['t'].get('l')
        if ln and ln != last:
            out.append(ln)
            last = ln
    return out


# error edges / blocks (P2)
def error_blocks(fn):
    """blocks that construct the function's error result: `from_residual` calls into _0 and
    `_0 = Err(..)` aggregates."""
    key = 'errb'
    if key in fn._sym:
        return fn._sym[key]
    out = set()
    for i, b in enumerate(fn.blocks):
        t = b['t']
        if t['k'] == 'call' and t.get('fn') and t['fn'].endswith('FromResidual::from_residual'):
            out.add(i)
        for st in b['s']:
            if st[0] == 'a' and st[1][0] == 0 and not st[1][1]:
                rv = st[2]
                if rv['k'] == 'agg' and rv['v'] in ('Err',):
                    out.add(i)
    fn._sym[key] = frozenset(out)
    return fn._sym[key]


# ----------------------------------------------------------------------------- must-call summaries
def must_call_set(facts, patterns, depth=4, exits='success'):
    """functions every success path (or every path to any normal exit) of which passes a call matching
    patterns, or a call to such a function (least fixed point, bounded rounds)."""
    must = set()
    for _round in range(depth):
        added = False
        for f in facts.fn_list:
            if f.path in must or f.kind == 'closure':
                continue
            mblocks = set()
            for c in f.calls:
                if c.matches(patterns) or (c.callee in must and not c.t.get('virt')):
                    mblocks.add(c.bb)
            if not mblocks:
                continue
            cut = set(mblocks)
            if exits == 'success':
                cut |= error_blocks(f)
            r = reach(f, cut_blocks=cut)
            if not any(rb in r['term'] for rb in f.ret_blocks()):
                must.add(f.path)
                added = True
        if not added:
            break
    return must


# ----------------------------------------------------------------------------- backward slices (P5)
def flow_sources(fn, operand_or_local, max_nodes=4000):
    """Flow-insensitive intra-procedural backward slice. Returns (set of locals, set of call bbs,
    set of arg locals, set of const descriptions) the value may derive from."""
    S = sym(fn)
    locals_ = set()
    calls = set()
    consts = set()
    work = []

    def push_operand(o):
        if o[0] == 'k':
            consts.add((o[1], json.dumps(o[2]) if len(o) > 2 else 'null', o[3] if len(o) > 3 else None))
        else:
            work.append(o[1][0])
            for p in o[1][1]:
                m = re.match(r'^\[_(\d+)\]$', p)
                if m:
                    work.append(int(m.group(1)))

    if isinstance(operand_or_local, int):
        work.append(operand_or_local)
    else:
        push_operand(operand_or_local)
    # out-params: local x whose `&mut x` is passed to a call depends on that call
    if 'mutargs' not in fn._sym:
        ma = defaultdict(set)
        for c in fn.calls:
            for a in c.t['a']:
                if a[0] in ('c', 'm'):
                    l = a[1][0]
                    for d in fn.defs.get(l, []):
                        if d[0] == 'stmt' and d[3]['k'] == 'ref' and d[3]['m']:
                            ma[d[3]['p'][0]].add(c.bb)
        # stores through projections: x.f = v  => x depends on v
        st_dep = defaultdict(list)
        for i, b in enumerate(fn.blocks):
            for st in b['s']:
                if st[0] == 'a' and st[1][1]:
                    st_dep[st[1][0]].append(st[2])
            t = b['t']
            if t['k'] == 'call' and t['d'][1]:
                st_dep[t['d'][0]].append({'k': 'callres', 'bb': i})
        fn._sym['mutargs'] = ma
        fn._sym['stdep'] = st_dep
    ma = fn._sym['mutargs']
    st_dep = fn._sym['stdep']

    def push_rv(rv):
        k = rv['k']
        if k in ('use', 'un', 'cast', 'repeat'):
            push_operand(rv['o'])
        elif k in ('ref', 'rawptr', 'disc'):
            push_operand(['c', rv['p']])
        elif k == 'bin':
            push_operand(rv['o'][0])
            push_operand(rv['o'][1])
        elif k == 'agg':
            for o in rv['o']:
                push_operand(o)
        elif k == 'callres':
            push_call(rv['bb'])

    def push_call(bb):
        if bb in calls:
            return
        calls.add(bb)
        for a in fn.blocks[bb]['t']['a']:
            push_operand(a)

    while work and len(locals_) < max_nodes:
        l = work.pop()
        if l in locals_:
            continue
        locals_.add(l)
        for d in fn.defs.get(l, []):
            if d[0] == 'call':
                push_call(d[1])
            else:
                push_rv(d[3])
        for bb in ma.get(l, ()):
            push_call(bb)
        for rv in st_dep.get(l, ()):
            push_rv(rv)
    args = {l for l in locals_ if 1 <= l <= fn.argc}
    _ = S
    return locals_, calls, args, consts


def flows_from_call(fn, operand, pattern):
    _l, calls, _a, _c = flow_sources(fn, operand)
    for bb in calls:
        cs = CallSite(fn, bb, fn.blocks[bb]['t'])
        if cs.matches(pattern):
            return True
    return False


def flows_from_arg(fn, operand, name):
    ls, _c, args, _k = flow_sources(fn, operand)
    for l in args:
        if fn.local_name(l) == name:
            return True
    return False


# ----------------------------------------------------------------------------- lock analysis (P4)
GUARD_TYPES = ('MutexGuard<', 'RwLockReadGuard<', 'RwLockWriteGuard<')


def is_guard_ty(ty):
    return any(ty.startswith(p) or ('::' + p) in ty.split('<')[0] + '<' for p in GUARD_TYPES) and not ty.startswith('std::result::Result<') and not ty.startswith('core::result::Result<')


def guard_locals(fn):
    key = 'guards'
    if key in fn._sym:
        return fn._sym[key]
    out = {}
    for l, (ty, _adts) in enumerate(fn.locals):
        if is_guard_ty(ty) and not ty.startswith('&'):
            inner = ty[ty.find('<') + 1:ty.rfind('>')]
            inner = re.sub(r"^'\w+, ", '', inner)
            out[l] = inner
    fn._sym[key] = out
    return out


def lock_class_of(fn, l):
    """class of the lock guarding local l (a guard): `<owner type>.<field>` when the receiver of the
    originating lock()/read()/write() call is a field, else the guarded type."""
    S = sym(fn)
    seen = 0
    cur = l
    while seen < 10:
        seen += 1
        ds = fn.defs.get(cur, [])
        if len(ds) != 1:
            break
        d = ds[0]
        if d[0] == 'call':
            cs = CallSite(fn, d[1], d[2])
            if cs.matches(('Result::unwrap', 'Result::expect', 'Result::unwrap_or_else', 'Option::unwrap', 'Try::branch')) and cs.t['a'] and cs.t['a'][0][0] in ('c', 'm'):
                cur = cs.t['a'][0][1][0]
                continue
            if cs.matches(('Mutex::lock', 'Mutex::try_lock', 'RwLock::read', 'RwLock::write', 'RwLock::try_read', 'RwLock::try_write', 'Condvar::wait', 'Condvar::wait_while', 'Condvar::wait_timeout')):
                if cs.matches(('Condvar::wait', 'Condvar::wait_while', 'Condvar::wait_timeout')):
                    a = cs.t['a'][1] if len(cs.t['a']) > 1 else None
                    if a and a[0] in ('c', 'm'):
                        cur = a[1][0]
                        continue
                    break
                recv = S.operand(cs.t['a'][0])
                desc = S.describe(recv)
                return desc
            # accessor returning a guard
            return 'via:' + strip_generics(cs.callee or '?')
        elif d[0] == 'stmt' and d[3]['k'] == 'use' and d[3]['o'][0] in ('c', 'm'):
            cur = d[3]['o'][1][0]
            continue
        break
    return 'ty:' + guard_locals(fn).get(l, '?')


def live_guards(fn, must=False):
    """forward dataflow: block -> set of guard locals live at the *terminator* of the block.
    may (default): live on some path; must: live on every path (intersection at joins) -- a lock is
    only *held* at a point if its guard is live on every path reaching it."""
    key = 'liveg_must' if must else 'liveg'
    if key in fn._sym:
        return fn._sym[key]
    gl = guard_locals(fn)
    inn = [None] * fn.nb
    out_t = [set() for _ in range(fn.nb)]
    inn[0] = frozenset()
    dq = deque([0])
    while dq:
        bb = dq.popleft()
        cur = set(inn[bb])
        b = fn.blocks[bb]
        for st in b['s']:
            if st[0] == 'sd':
                cur.discard(st[1])
            elif st[0] == 'a':
                rv = st[2]
                # move of a guard into another local
                if not st[1][1] and st[1][0] in gl and rv['k'] == 'use' and rv['o'][0] == 'm' and not rv['o'][1][1]:
                    cur.discard(rv['o'][1][0])
                    cur.add(st[1][0])
                elif rv['k'] == 'use' and rv['o'][0] == 'm' and not rv['o'][1][1] and rv['o'][1][0] in gl:
                    cur.discard(rv['o'][1][0])
                elif rv['k'] == 'agg':
                    for o in rv['o']:
                        if o[0] == 'm' and not o[1][1] and o[1][0] in gl:
                            cur.discard(o[1][0])
        t = b['t']
        at_term = set(cur)
        after = set(cur)
        if t['k'] == 'call':
            for a in t['a']:
                if a[0] == 'm' and not a[1][1] and a[1][0] in gl:
                    after.discard(a[1][0])
                    at_term.discard(a[1][0])  # moved into the call: callee owns it
            if not t['d'][1] and t['d'][0] in gl:
                after.add(t['d'][0])
        elif t['k'] == 'drop':
            if not t['p'][1] and t['p'][0] in gl:
                after.discard(t['p'][0])
        out_t[bb] = at_term
        fa = frozenset(after)
        succs = [tb for tb, _l in fn.succ(bb)]
        u = t.get('u')
        if u is not None:
            succs.append(u)
        for tb in succs:
            if inn[tb] is None:
                inn[tb] = fa
                dq.append(tb)
            elif must:
                if not inn[tb] <= fa:
                    inn[tb] = inn[tb] & fa
                    dq.append(tb)
            elif not fa <= inn[tb]:
                inn[tb] = inn[tb] | fa
                dq.append(tb)
    fn._sym[key] = out_t
    fn._sym['liveg_must_in' if must else 'liveg_in'] = inn
    return out_t


def held_classes_at(fn, bb, idx=None, must=False):
    if must:
        return {lock_class_of(fn, l) for l in _live_at(fn, bb, idx, must=True)}
    return _held_classes_at_may(fn, bb, idx)


def _held_classes_at_may(fn, bb, idx=None):
    """lock classes of the guards live at the terminator of bb (idx None) or just before
    statement idx of bb."""
    if idx is None or idx >= len(fn.blocks[bb]['s']):
        return {lock_class_of(fn, l) for l in live_guards(fn)[bb]}
    live_guards(fn)
    gl = guard_locals(fn)
    cur = set(fn._sym['liveg_in'][bb] or ())
    for st in fn.blocks[bb]['s'][:idx]:
        if st[0] == 'sd':
            cur.discard(st[1])
        elif st[0] == 'a':
            rv = st[2]
            if not st[1][1] and st[1][0] in gl and rv['k'] == 'use' and rv['o'][0] == 'm' and not rv['o'][1][1]:
                cur.discard(rv['o'][1][0])
                cur.add(st[1][0])
            elif rv['k'] == 'use' and rv['o'][0] == 'm' and not rv['o'][1][1] and rv['o'][1][0] in gl:
                cur.discard(rv['o'][1][0])
    return {lock_class_of(fn, l) for l in cur}


# ----------------------------------------------------------------------------- type walk (P7)
def adt_contains(facts, adt_path, target_pred, _seen=None, _memo=None):
    """does ADT (by def path) transitively contain, through its fields' types, an ADT satisfying pred?"""
    if _memo is None:
        _memo = {}
    if adt_path in _memo:
        return _memo[adt_path]
    if _seen is None:
        _seen = set()
    if adt_path in _seen:
        return False
    _seen.add(adt_path)
    a = facts.adts.get(adt_path)
    res = False
    if a is not None:
        for v in a['variants']:
            for f in v['fields']:
                for t in f['adts']:
                    if target_pred(t):
                        res = True
                    elif t in facts.adts and adt_contains(facts, t, target_pred, _seen, _memo):
                        res = True
                    if res:
                        break
                if res:
                    break
            if res:
                break
    _memo[adt_path] = res
    return res


def lock_class_of_call(fn, bb):
    """class of the lock acquired by the lock()/read()/write() call terminating bb."""
    t = fn.blocks[bb]['t']
    S = sym(fn)
    if not t['a']:
        return '?'
    return S.describe(S.operand(t['a'][0]))


def _live_at(fn, bb, idx=None, must=False):
    live_guards(fn, must)
    if idx is None or idx >= len(fn.blocks[bb]['s']):
        return set(live_guards(fn, must)[bb])
    gl = guard_locals(fn)
    cur = set(fn._sym['liveg_must_in' if must else 'liveg_in'][bb] or ())
    for st in fn.blocks[bb]['s'][:idx]:
        if st[0] == 'sd':
            cur.discard(st[1])
        elif st[0] == 'a':
            rv = st[2]
            if not st[1][1] and st[1][0] in gl and rv['k'] == 'use' and rv['o'][0] == 'm' and not rv['o'][1][1]:
                cur.discard(rv['o'][1][0])
                cur.add(st[1][0])
            elif rv['k'] == 'use' and rv['o'][0] == 'm' and not rv['o'][1][1] and rv['o'][1][0] in gl:
                cur.discard(rv['o'][1][0])
    return cur


def short_ty(t):
    """last path segment of a type string, generics kept but shortened: used as a lock class."""
    t = t.strip()
    t = re.sub(r"[\w:]+::(\w+)", r"\1", t)
    return t


def held_types_at(fn, bb, idx=None, must=False):
    """guarded types (short) of the guards live at a point: the type-based lock class."""
    gl = guard_locals(fn)
    return {short_ty(gl[l]) for l in _live_at(fn, bb, idx, must) if l in gl}


# ----------------------------------------------------------------------------- discards (P6)
ERR_TYPES = ('error::StorageError', 'std::io::Error', 'io::no_std::Error', 'error::DatabaseError', 'error::TransactionError',
             'error::TableError', 'error::CommitError', 'error::SavepointError', 'error::CompactionError', 'error::Error',
             'error::SetDurabilityError')


def result_err_type(dty):
    if not (dty.startswith('std::result::Result<') or dty.startswith('core::result::Result<')):
        return None
    inner = dty[dty.find('<') + 1:-1]
    depth = 0
    for i, c in enumerate(inner):
        if c in '<([':
            depth += 1
        elif c in '>)]':
            if c == '>' and i > 0 and inner[i - 1] == '-':
                continue
            depth -= 1
        elif c == ',' and depth == 0:
            return inner[i + 1:].strip()
    return None


def local_uses(fn):
    key = 'uses'
    if key in fn._sym:
        return fn._sym[key]
    uses = defaultdict(list)

    def op(o, where):
        if o[0] in ('c', 'm'):
            uses[o[1][0]].append(where)
            for p in o[1][1]:
                m = re.match(r'^\[_(\d+)\]$', p)
                if m:
                    uses[int(m.group(1))].append(where)

    for i, b in enumerate(fn.blocks):
        for j, st in enumerate(b['s']):
            if st[0] == 'a':
                rv = st[2]
                w = ('stmt', i, j)
                k = rv['k']
                if k in ('use', 'un', 'cast', 'repeat'):
                    op(rv['o'], w)
                elif k in ('ref', 'rawptr', 'disc'):
                    uses[rv['p'][0]].append(w)
                elif k == 'bin':
                    op(rv['o'][0], w)
                    op(rv['o'][1], w)
                elif k == 'agg':
                    for o in rv['o']:
                        op(o, w)
                if st[1][1]:
                    uses[st[1][0]].append(('store', i, j))
        t = b['t']
        if t['k'] in ('call', 'tailcall'):
            for a in t['a']:
                op(a, ('call', i))
            if t.get('fnop'):
                op(t['fnop'], ('call', i))
        elif t['k'] in ('sw', 'assert'):
            op(t['o'], ('switch', i))
    fn._sym[key] = uses
    return uses


PASS_THROUGH_DISCARD = ('Result::ok', 'Result::err', 'Result::map_err', 'Result::as_ref', 'Result::map', 'Result::is_ok', 'Result::is_err', 'Option::is_some', 'Option::is_none')


def is_discarded(fn, local, depth=0):
    """the value in `local` is never looked at: no use other than drop / StorageDead, or only
    pass-through conversions whose own result is discarded."""
    if local == 0:
        return False
    us = local_uses(fn).get(local, [])
    if not us:
        return True
    if depth > 4:
        return False
    for u in us:
        if u[0] == 'call':
            cs = CallSite(fn, u[1], fn.blocks[u[1]]['t'])
            d = cs.t['d']
            if cs.matches(PASS_THROUGH_DISCARD) and not d[1] and cs.matches(('Result::ok', 'Result::err', 'Result::map_err', 'Result::as_ref', 'Result::map')):
                if is_discarded(fn, d[0], depth + 1):
                    continue
            return False
        elif u[0] == 'stmt':
            st = fn.blocks[u[1]]['s'][u[2]]
            # a plain move/copy/ref into another local: follow
            if not st[1][1] and st[2]['k'] in ('use', 'ref') and st[1][0] != 0:
                if is_discarded(fn, st[1][0], depth + 1):
                    continue
            return False
        else:
            return False
    return True


def discard_sites(facts):
    out = []
    for f in facts.fn_list:
        for c in f.calls:
            if f.blocks[c.bb]['c']:
                continue
            et = result_err_type(c.t.get('dty', ''))
            if et is None or not any(et == e or et.endswith('::' + e) or e in et for e in ERR_TYPES):
                continue
            d = c.t['d']
            if d[1] or d[0] == 0:
                continue
            if is_discarded(f, d[0]):
                out.append(c)
    return out


# ----------------------------------------------------------------------------- lock-order graph (P4)
LOCK_CALLS = ('Mutex::lock', 'Mutex::try_lock', 'RwLock::read', 'RwLock::write', 'RwLock::try_read', 'RwLock::try_write')


def _guarded_type_of_lock_call(cs):
    dty = cs.t.get('dty', '')
    m = re.search(r"(?:MutexGuard|RwLockReadGuard|RwLockWriteGuard)<'_, ", dty)
    if m:
        i = m.end()
        depth = 0
        out = ''
        while i < len(dty):
            ch = dty[i]
            if ch == '<':
                depth += 1
            elif ch == '>':
                if depth == 0:
                    break
                depth -= 1
            out += ch
            i += 1
        return short_ty(out)
    ga = cs.t.get('ga') or []
    return short_ty(ga[0]) if ga else '?'


def lock_graph(facts):
    """class-level lock-order graph over the whole crate.
    returns (edges, acq) where edges: dict (A, B) -> list of (fn path, line, via, is_try) and
    acq: fn path -> set of (class, is_try) acquired transitively."""
    if getattr(facts, '_lockgraph', None) is not None:
        return facts._lockgraph
    # only statically resolved callees: every reported edge is a real nesting of two acquisitions
    # (an under-approximation of what may be acquired through generic/dyn calls, never a guess)
    static_g = defaultdict(set)
    for f in facts.fn_list:
        for cl in f.closures:
            static_g[f.path].add(cl.path)
        for c in f.calls:
            if c.resolved and c.resolved in facts.fns and not c.t.get('virt'):
                static_g[f.path].add(c.resolved)
            elif c.declared and c.declared in facts.fns and not c.t.get('trait'):
                static_g[f.path].add(c.declared)
    direct = defaultdict(set)
    for f in facts.fn_list:
        for c in f.calls:
            if c.matches(LOCK_CALLS) and not c.t.get('local'):
                cls = _guarded_type_of_lock_call(c)
                is_try = 'try_' in (c.callee or '')
                direct[f.path].add((cls, is_try))
            elif c.matches(LOCK_CALLS) and c.callee and c.callee.startswith('sync::'):
                # the crate's own spin locks (no_std)
                cls = _guarded_type_of_lock_call(c)
                direct[f.path].add((cls, 'try_' in c.callee))
    g = static_g
    # drop glue: type -> drop fn
    drop_fns = {}
    for f in facts.fn_list:
        if f.d.get('impl_trait') == 'std::ops::Drop' or f.d.get('impl_trait') == 'core::ops::Drop':
            st = strip_generics(f.d.get('self_ty') or '')
            drop_fns[st] = f.path
    # transitive acquisition (fixed point)
    acq = {f.path: set(direct.get(f.path, ())) for f in facts.fn_list}
    # calls through Drop terminators
    drops = defaultdict(set)
    for f in facts.fn_list:
        for i, b in enumerate(f.blocks):
            t = b['t']
            if t['k'] == 'drop':
                pty = strip_generics(t.get('pty', ''))
                for st, dp in drop_fns.items():
                    if st and st in t.get('pty', ''):
                        drops[f.path].add(dp)
    changed = True
    rounds = 0
    while changed and rounds < 50:
        changed = False
        rounds += 1
        for f in facts.fn_list:
            cur = acq[f.path]
            n0 = len(cur)
            for cal in g.get(f.path, ()):
                cur |= acq.get(cal, set())
            for dp in drops.get(f.path, ()):
                cur |= acq.get(dp, set())
            if len(cur) != n0:
                changed = True
    edges = defaultdict(list)
    for f in facts.fn_list:
        for c in f.calls:
            held = held_types_at(f, c.bb)
            if not held:
                continue
            if c.matches(LOCK_CALLS) and (not c.t.get('local') or (c.callee or '').startswith('sync::')):
                targets = {(_guarded_type_of_lock_call(c), 'try_' in (c.callee or ''))}
                via = 'direct'
            else:
                targets = set()
                if c.resolved and c.resolved in facts.fns and not c.t.get('virt'):
                    targets |= acq.get(c.resolved, set())
                elif c.declared and c.declared in facts.fns and not c.t.get('trait'):
                    targets |= acq.get(c.declared, set())
                via = strip_generics(c.callee or '?')
            for (b, is_try) in targets:
                for h in held:
                    edges[(h, b)].append((f.path, c.line, via, is_try))
        for i, b in enumerate(f.blocks):
            t = b['t']
            if t['k'] == 'drop':
                held = held_types_at(f, i)
                if not held:
                    continue
                # the guard being dropped itself is not "held across" its own drop
                for st, dp in drop_fns.items():
                    if st and st in t.get('pty', ''):
                        for (cls, is_try) in acq.get(dp, set()):
                            for h in held:
                                edges[(h, cls)].append((f.path, t.get('l'), 'drop ' + st, is_try))
    facts._lockgraph = (edges, acq)
    return facts._lockgraph


def find_cycles(nodes_edges):
    """simple cycle enumeration (Tarjan SCCs; returns SCCs with more than one node or a self loop)."""
    graph = defaultdict(set)
    for (a, b) in nodes_edges:
        graph[a].add(b)
    index = {}
    low = {}
    stack = []
    on = set()
    out = []
    counter = [0]

    def strong(v):
        index[v] = low[v] = counter[0]
        counter[0] += 1
        stack.append(v)
        on.add(v)
        for w in graph.get(v, ()):
            if w not in index:
                strong(w)
                low[v] = min(low[v], low[w])
            elif w in on:
                low[v] = min(low[v], index[w])
        if low[v] == index[v]:
            comp = []
            while True:
                w = stack.pop()
                on.discard(w)
                comp.append(w)
                if w == v:
                    break
            if len(comp) > 1 or (v in graph.get(v, ())):
                out.append(sorted(comp))
    import sys
    sys.setrecursionlimit(10000)
    for v in list(graph):
        if v not in index:
            strong(v)
    return out


def direct_lock_nestings(facts, depth=2):
    """exact, bounded lock nestings: (held class, acquired class, kind) -> list of (root fn, line, via)
    where the acquisition is a lock call in the same function (via 'direct') or in a statically
    resolved callee chain of at most `depth` calls that contains the lock call in its own body.
    No drop glue, no generic/dyn expansion: every reported pair is a real syntactic nesting."""
    key = '_nest%d' % depth
    if getattr(facts, key, None) is not None:
        return getattr(facts, key)
    direct = defaultdict(set)
    for f in facts.fn_list:
        for c in f.calls:
            if c.matches(LOCK_CALLS) and (not c.t.get('local') or (c.callee or '').startswith('sync::')):
                direct[f.path].add((_guarded_type_of_lock_call(c), 'try' if 'try_' in (c.callee or '') else 'lock'))
    static = defaultdict(set)
    for f in facts.fn_list:
        for c in f.calls:
            if c.resolved and c.resolved in facts.fns and not c.t.get('virt'):
                static[f.path].add(c.resolved)
    def acq(path, d, seen):
        out = set(direct.get(path, ()))
        if d > 0:
            for g in static.get(path, ()):
                if g not in seen:
                    out |= acq(g, d - 1, seen | {g})
        return out
    pairs = defaultdict(list)
    for f in facts.fn_list:
        for c in f.calls:
            held = held_types_at(f, c.bb)
            if not held:
                continue
            if c.matches(LOCK_CALLS) and (not c.t.get('local') or (c.callee or '').startswith('sync::')):
                tg = {(_guarded_type_of_lock_call(c), 'try' if 'try_' in (c.callee or '') else 'lock')}
                via = 'direct'
            elif c.resolved and c.resolved in facts.fns and not c.t.get('virt'):
                tg = acq(c.resolved, depth - 1, {c.resolved})
                via = strip_generics(c.resolved)
            else:
                continue
            for (cls, kind) in tg:
                for h in held:
                    pairs[(h, cls, kind)].append((facts.root_of(f).path, c.line, via))
    setattr(facts, key, pairs)
    return pairs


# ----------------------------------------------------------------------------- tag maps (P8)
def emitted_consts(fn):
    """integer constants a tag writer can return: constants assigned to _0 (directly or through
    single-assignment locals)."""
    out = set()
    named = set()
    seen = set()

    def from_local(l, depth=0):
        if depth > 6 or l in seen:
            return
        seen.add(l)
        for d in fn.defs.get(l, []):
            if d[0] != 'stmt':
                continue
            rv = d[3]
            if rv['k'] in ('use', 'cast'):
                o = rv['o']
                if o[0] == 'k':
                    if isinstance(o[2], int) and not isinstance(o[2], bool):
                        out.add(o[2])
                        if len(o) > 3 and o[3]:
                            named.add(o[3])
                elif not o[1][1]:
                    from_local(o[1][0], depth + 1)
    from_local(0)
    return out, named


def accepted_values(fn, param=1):
    """values a tag reader accepts: arms of the switch on the parameter (or a copy / field read of it)
    from which a Return is reachable; ('*' if the otherwise arm can return)."""
    acc = set()
    S = sym(fn)
    found = False
    for bb in range(fn.nb):
        t = fn.blocks[bb]['t']
        if t['k'] != 'sw' or t.get('oty') == 'bool':
            continue
        term = S.operand(t['o'])
        root = term
        while root[0] == 'place':
            root = root[1]
        if not (root[0] == 'arg' and root[1] == param):
            continue
        found = True
        for si, (tb, label) in enumerate(fn.succ(bb)):
            r = reach(fn, start=(tb, -1))
            can_ret = any(rb in r['term'] for rb in fn.ret_blocks())
            if can_ret:
                acc.add('*' if label == 'otherwise' else int(label))
    return acc, found


def discard_sites_generic(facts, err_suffixes):
    out = []
    for f in facts.fn_list:
        for c in f.calls:
            if f.blocks[c.bb]['c']:
                continue
            et = result_err_type(c.t.get('dty', ''))
            if et is None or not any(et == e or et.endswith('::' + e) for e in err_suffixes):
                continue
            d = c.t['d']
            if d[1] or d[0] == 0:
                continue
            if is_discarded(f, d[0]):
                out.append(c)
    return out
