"""Rule-writing kit: a Ctx object that evaluates rule primitives on one fact set (one build
configuration), records every obligation (site x rule), the sites analysed, and violations with
stable keys (no line numbers) plus diagnosable text."""
import os
import sys
import json
sys.path.insert(0, os.path.dirname(__file__))
import core
from core import Guard, AnchorError


class Point:
    """a program point: call site (terminator) or statement."""

    def __init__(self, fn, bb, idx, desc, line, call=None):
        self.fn = fn
        self.bb = bb
        self.idx = idx
        self.desc = desc
        self.line = line
        self.call = call

    @property
    def is_term(self):
        return self.idx >= len(self.fn.blocks[self.bb]['s'])

    def where(self):
        return '%s:%s' % (self.fn.file, self.line)

    def __repr__(self):
        return 'Point(%s in %s @%s)' % (self.desc, self.fn.path, self.where())


def cpoint(cs, desc=None):
    fn = cs.fn
    return Point(fn, cs.bb, len(fn.blocks[cs.bb]['s']), desc or ('call ' + core.strip_generics(cs.callee or '?')), cs.line, cs)


class Violation:
    def __init__(self, prop, rule, key, cfg, msg, fn=None, line=None, path=None):
        self.prop = prop
        self.rule = rule
        self.key = key
        self.cfg = cfg
        self.msg = msg
        self.fn = fn
        self.line = line
        self.path = path or []

    def to_json(self):
        return {
            'property': self.prop, 'rule': self.rule, 'key': self.key, 'config': self.cfg,
            'message': self.msg, 'function': self.fn.path if self.fn else None,
            'file': self.fn.file if self.fn else None, 'line': self.line, 'path_lines': self.path,
        }

    def text(self):
        loc = ''
        if self.fn:
            loc = ' at %s:%s in `%s`' % (self.fn.file, self.line or self.fn.line, self.fn.path)
        p = ''
        if self.path:
            p = ' ; witness path lines ' + '->'.join(str(x) for x in self.path)
        return '[%s cfg=%s] %s%s%s' % (self.rule, self.cfg, self.msg, loc, p)


_NAMED = None


def _is_named_anchor(callee):
    """does any rule file mention this function (`Type::method`) by name?"""
    global _NAMED
    if _NAMED is None:
        import glob, os, re
        _NAMED = set()
        d = os.path.join(os.path.dirname(os.path.abspath(__file__)), 'rules')
        for fp in glob.glob(os.path.join(d, '*.py')):
            src = open(fp).read()
            for m in re.finditer(r"['\"](?:[A-Za-z_][A-Za-z0-9_<> ]*::)+([A-Za-z_][A-Za-z0-9_]*::[a-z_][A-Za-z0-9_]*)['\"]", src):
                _NAMED.add(m.group(1))
            for m in re.finditer(r"['\"]([A-Z][A-Za-z0-9_]*::[a-z_][A-Za-z0-9_]*)['\"]", src):
                _NAMED.add(m.group(1))
            # TM + '::commit' style
            for m in re.finditer(r"\b([A-Z]{2,8})\s*\+\s*['\"]::([a-z_][A-Za-z0-9_]*)['\"]", src):
                _NAMED.add('*::' + m.group(2))
    segs = core.strip_generics(callee).split('::')
    if len(segs) < 2:
        return False
    return ('%s::%s' % (segs[-2], segs[-1])) in _NAMED or ('*::' + segs[-1]) in _NAMED


class Ctx:
    def __init__(self, facts, cfg, prop):
        self.facts = facts
        self.cfg = cfg
        self.prop = prop
        self.rule = None
        self.violations = []
        self.obligations = 0
        self.discharged = 0
        self.samples = []
        self.per_rule = {}
        self.fns_touched = set()
        self.notes = []
        self.unmatched_subject = 0

    # ------------------------------------------------------------------ bookkeeping
    def set_rule(self, rule, desc=''):
        self.rule = rule
        self.per_rule.setdefault(rule, {'desc': desc, 'obligations': 0, 'discharged': 0, 'sites': 0})

    def _ob(self, ok, sample=None):
        self.obligations += 1
        pr = self.per_rule[self.rule]
        pr['obligations'] += 1
        if ok:
            self.discharged += 1
            pr['discharged'] += 1
        if sample is not None and len(self.samples) < 400:
            self.samples.append(sample)

    def violate(self, key, msg, fn=None, line=None, path=None):
        full = '%s|%s' % (self.rule, key)
        self.violations.append(Violation(self.prop, self.rule, full, self.cfg, msg, fn, line, path))

    def sample(self, kind, fn, line, what):
        return {'rule': self.rule, 'cfg': self.cfg, 'kind': kind, 'fn': fn.path if fn else None,
                'at': ('%s:%s' % (fn.file, line)) if fn else None, 'what': what}

    # ------------------------------------------------------------------ anchors
    def fn(self, pattern):
        """anchored function; failure is recorded as a violation and None is returned."""
        try:
            f = self.facts.fn(pattern)
            self.fns_touched.add(f.path)
            return f
        except AnchorError as e:
            self._ob(False)
            self.violate('anchor|' + pattern, str(e))
            return None

    def has_fn(self, pattern):
        return self.facts.has_fn(pattern)

    def sites(self, f, pattern, floor=1, exact=None, family=False, desc=None):
        """call sites of pattern in f (non-cleanup blocks); fails closed below the floor."""
        if f is None:
            return []
        cs = f.family_calls_to(pattern) if family else f.calls_to(pattern)
        n = len(cs)
        want = exact if exact is not None else floor
        pats = [pattern] if isinstance(pattern, str) else list(pattern)
        if n < want and not family:
            # helper extraction: a call to a local function every success path of which passes
            # `pattern` (must-call summary, depth 3) counts as a site of `pattern`.  For a library
            # routine (`copy_from_slice`, `BTreeMap::entry`) many unrelated functions of the crate
            # call it internally; a function that the rule tables themselves name as an anchor
            # (`BranchMutator::write_child_page`) has a meaning of its own and never stands in for
            # a missing library call -- only a helper the rules do not know (a freshly extracted
            # one) does.
            summ = self._summary(pattern)
            local = all(self.facts.has_fn(p_) for p_ in pats)
            extra = [c for c in f.calls if c.callee in summ and not c.t.get('virt') and not f.blocks[c.bb]['c'] and c not in cs
                     and (local or not _is_named_anchor(c.callee))]
            if extra:
                cs = cs + extra
                n = len(cs)
                self.notes.append('%s: %d site(s) of %s in %s counted through must-call summaries' % (self.rule, len(extra), pattern, f.path))
        self.per_rule[self.rule]['sites'] += n
        pname = pattern if isinstance(pattern, str) else '|'.join(pattern)
        ok = n >= floor and (exact is None or n == exact)
        self._ob(ok, self.sample('sites', f, f.line, '%d call site(s) of %s (floor %s%s)' % (n, pname, floor, '' if exact is None else ', exact %d' % exact)))
        if not ok:
            self.violate('floor|%s|%s' % (f.path, pname),
                         'expected %s call site(s) of `%s`, found %d' % (('exactly %d' % exact) if exact is not None else ('at least %d' % floor), pname, n), f, f.line)
        return [cpoint(c) for c in cs]

    def atomic_sites(self, f, op, field, floor=1, exact=None, value=None):
        """call sites of Atomic::<op> (store/load/swap/..) on the field whose description ends with `field`."""
        if f is None:
            return []
        S = core.sym(f)
        out = []
        for c in f.calls_to('Atomic::' + op):
            d = S.describe(S.operand(c.t['a'][0])) if c.t['a'] else ''
            if d == field or d.endswith('.' + field):
                if value is not None:
                    a = c.t['a'][1] if len(c.t['a']) > 1 else None
                    if not (a and a[0] == 'k' and a[2] == value):
                        continue
                out.append(cpoint(c, 'atomic %s %s' % (op, field)))
        n = len(out)
        self.per_rule[self.rule]['sites'] += n
        ok = n >= floor and (exact is None or n == exact)
        self._ob(ok, self.sample('sites', f, f.line, '%d atomic %s site(s) on %s' % (n, op, field)))
        if not ok:
            self.violate('floor|%s|atomic %s %s' % (f.path, op, field), 'expected %s atomic %s of `%s`%s, found %d' % (('exactly %d' % exact) if exact is not None else ('at least %d' % floor), op, field, '' if value is None else ' with value %r' % value, n), f, f.line)
        return out

    def after_success_from(self, f, a_points, callee, targets, what=None):
        """from each call site A (of callee), targets are reachable only through A's Ok/Some edge."""
        if f is None:
            return
        edges = core.guard_edges(f, [Guard(call=callee, vals={'Ok', 'Some', 'true'})])
        for a in a_points:
            r = core.reach(f, start=(a.bb, a.idx - 1 if not a.is_term else a.idx), cut_edges=edges) if False else core.reach(f, start=(a.bb, len(f.blocks[a.bb]['s']) - 1), cut_edges=edges)
            for t in targets:
                hit = self._reached(f, r, t)
                desc = what or ('%s reachable from %s only through its success edge' % (t.desc, a.desc))
                self._ob(not hit and bool(edges), self.sample('after-success', f, t.line, desc))
                if hit or not edges:
                    self.violate('after-success|%s|%s|%s' % (f.path, a.desc, t.desc), 'AFTER-SUCCESS violated: %s reachable after %s without crossing its success edge' % (t.desc, a.desc), f, t.line,
                                 core.path_lines(f, core.find_path(f, t.bb, cut_edges=edges, start=(a.bb, 0))))

    def _summary(self, pattern):
        key = pattern if isinstance(pattern, str) else tuple(pattern)
        cache = self.facts.__dict__.setdefault('_summaries', {})
        if key not in cache:
            cache[key] = core.must_call_set(self.facts, pattern, depth=3)
        return cache[key]

    def stores(self, f, field, owner=None, family=False, floor=1, value=None):
        """statement points storing to `<owner>.<field>` (last projection = field)."""
        if f is None:
            return []
        out = []
        for g in (f.family() if family else [f]):
            for i, b in enumerate(g.blocks):
                if b['c']:
                    continue
                for j, st in enumerate(b['s']):
                    if st[0] != 'a' or not st[1][1]:
                        continue
                    if st[1][1][-1] != '.' + field:
                        continue
                    own = st[4] if len(st) > 4 else None
                    if owner is not None and (own is None or not (core.strip_generics(own).lstrip('&').replace('mut ', '').endswith(owner))):
                        continue
                    if value is not None:
                        rv = st[2]
                        if not (rv['k'] == 'use' and rv['o'][0] == 'k' and rv['o'][2] == value):
                            continue
                    out.append(Point(g, i, j, 'store %s.%s' % (owner or '?', field), st[3]))
        self.per_rule[self.rule]['sites'] += len(out)
        ok = len(out) >= floor
        self._ob(ok, self.sample('stores', f, f.line, '%d store(s) to %s.%s' % (len(out), owner, field)))
        if not ok:
            self.violate('floor|%s|store %s.%s' % (f.path, owner, field), 'expected at least %d store(s) to %s.%s, found %d' % (floor, owner, field, len(out)), f, f.line)
        return out

    # ------------------------------------------------------------------ reachability helpers
    def _cuts(self, fn, pts):
        cb = set()
        cp = set()
        for p in pts:
            assert p.fn is fn, 'cut point of another function'
            if p.is_term:
                cb.add(p.bb)
            else:
                cp.add((p.bb, p.idx))
        return cb, cp

    def _reached(self, fn, r, p):
        return core.point_reached(fn, r, p.bb, p.idx)

    def order(self, f, before, after, what=None, start=None):
        """ORDER: every `after` point is cut off from entry (or from `start`) by the `before` points."""
        if f is None:
            return
        if not before or not after:
            return
        cb, cp = self._cuts(f, before)
        r = core.reach(f, start=(start.bb, start.idx) if start else None, cut_blocks=cb, cut_points=cp)
        bkeys = {(b.bb, b.idx) for b in before}
        for t in after:
            if (t.bb, t.idx) in bkeys:
                continue
            hit = self._reached(f, r, t)
            desc = what or ('%s before %s' % (before[0].desc, t.desc))
            self._ob(not hit, self.sample('order', f, t.line, desc))
            if hit:
                path = core.path_lines(f, core.find_path(f, t.bb, cut_blocks=cb))
                self.violate('order|%s|%s|%s' % (f.path, before[0].desc, t.desc),
                             'ORDER violated: %s reachable without passing %s' % (t.desc, ' / '.join(sorted({b.desc for b in before}))),
                             f, t.line, path)

    def guarded(self, f, targets, guards, what=None, also_cut=()):
        """GUARD: every target is reachable from entry only through one of the guard edges.
        also_cut: extra points that legitimately protect the target (alternative guards)."""
        if f is None or not targets:
            return
        edges = core.guard_edges(f, guards)
        cb, cp = self._cuts(f, also_cut)
        r = core.reach(f, cut_edges=edges, cut_blocks=cb, cut_points=cp)
        for t in targets:
            hit = self._reached(f, r, t)
            desc = what or ('%s guarded by %s' % (t.desc, guards))
            self._ob(not hit and bool(edges), self.sample('guard', f, t.line, desc + ' (%d guard edge(s))' % len(edges)))
            if not edges:
                self.violate('guard-missing|%s|%s|%s' % (f.path, t.desc, _gkey(guards)),
                             'GUARD missing: no edge matching %s found in function' % (guards,), f, t.line)
            elif hit:
                path = core.path_lines(f, core.find_path(f, t.bb, cut_edges=edges, cut_blocks=cb))
                self.violate('guard|%s|%s|%s' % (f.path, t.desc, _gkey(guards)),
                             'GUARD violated: %s reachable without crossing %s' % (t.desc, guards), f, t.line, path)

    def guarded_cmp(self, f, targets, guards, what=None):
        """polarity-free GUARD: some switch whose test involves the guard subject has exactly one
        successor edge through which the target is reachable (cutting it makes T unreachable)."""
        if f is None or not targets:
            return
        edges = core.guard_edges(f, guards)
        for t in targets:
            ok = False
            for e in sorted(edges):
                r = core.reach(f, cut_edges={e})
                if not self._reached(f, r, t):
                    # the other arm must exist
                    ok = True
                    break
            desc = what or ('%s control-dependent on %s' % (t.desc, guards))
            self._ob(ok, self.sample('guard-cmp', f, t.line, desc))
            if not ok:
                self.violate('guard-cmp|%s|%s|%s' % (f.path, t.desc, _gkey(guards)),
                             'GUARD violated: %s is not control-dependent on a test of %s' % (t.desc, guards), f, t.line)

    def must_pass(self, f, through, start=None, exits='success', what=None, summaries=None, extra_cut_edges=()):
        """MUST-PASS: every path from start (entry if None) to a success exit (or any normal exit)
        passes one of the `through` points (or a call to a function in `summaries`)."""
        if f is None:
            return
        if start is not None and any((p.bb, p.idx) == (start.bb, start.idx) for p in through):
            # the start point is itself one of the required points (helper extraction)
            self._ob(True, self.sample('must-pass', f, start.line, what or 'start is the required point'))
            return
        cb, cp = self._cuts(f, through)
        if summaries:
            for c in f.calls:
                if c.callee in summaries and not c.t.get('virt'):
                    cb.add(c.bb)
        if exits == 'success':
            cb |= core.error_blocks(f)
        st = None
        if start is not None:
            st = (start.bb, start.idx)
            cb.discard(start.bb) if start.is_term else None
        r = core.reach(f, start=st, cut_blocks=cb, cut_points=cp, cut_edges=set(extra_cut_edges))
        bad = [rb for rb in f.ret_blocks() if rb in r['term']]
        desc = what or ('every %s path%s passes %s' % (exits, (' from ' + start.desc) if start else '', ' / '.join(sorted({p.desc for p in through})) or 'summaries'))
        self._ob(not bad, self.sample('must-pass', f, (start.line if start else f.line), desc))
        if bad:
            path = core.path_lines(f, core.find_path(f, bad[0], cut_blocks=cb, start=st))
            self.violate('must-pass|%s|%s|%s' % (f.path, start.desc if start else 'entry', '/'.join(sorted({p.desc for p in through})) or 'summaries'),
                         'MUST-PASS violated: %s' % desc, f, start.line if start else f.line, path)

    def each_iteration_passes(self, f, targets, what, key, allow_return=False):
        """every iteration of the loop(s) whose body contains a target passes a target before the
        loop advances (reaches its `Iterator::next` again) or the function returns successfully."""
        if f is None or not targets:
            return
        nxt = [c for c in f.calls if c.matches('Iterator::next') and not f.blocks[c.bb]['c']]
        e_none = core.guard_edges(f, [Guard(call='Iterator::next', vals={'None'})])
        tb = {t.bb for t in targets}
        n_checked = 0
        for n_ in nxt:
            others = {m.bb for m in nxt if m.bb != n_.bb}
            r0 = core.reach(f, start=(n_.bb, len(f.blocks[n_.bb]['s']) - 1), cut_edges=e_none, cut_blocks=others)
            if not any(b in r0['term'] for b in tb):
                continue  # not the loop around the target
            n_checked += 1
            r = core.reach(f, start=(n_.bb, len(f.blocks[n_.bb]['s']) - 1), cut_edges=e_none, cut_blocks=tb | core.error_blocks(f))
            looped = any(f.succ(bb_)[si_][0] == n_.bb for (bb_, si_) in r['edges'])
            fin = (not allow_return) and any(rb in r['term'] for rb in f.ret_blocks())
            self._ob(not (looped or fin), self.sample('must-pass', f, n_.line, what))
            if looped or fin:
                self.violate('must-pass|%s|%s' % (f.path, key), 'loop body can be completed without %s: %s' % (targets[0].desc, what), f, n_.line)
        self.check(n_checked >= 1, 'floor|%s|%s|loop' % (f.path, key), 'the loop around %s was found' % targets[0].desc, f, f.line)

    def after_success(self, f, a_pattern, targets, vals=('Ok', 'Some', 'true'), what=None):
        """AFTER-SUCCESS: targets reachable only through the success edge of a call to a_pattern."""
        self.guarded(f, targets, [Guard(call=a_pattern, vals=set(vals))], what=what)

    # ------------------------------------------------------------------ call sets
    def callers_eq(self, callee, expected, what=None, allow_missing=(), ignore=()):
        """WHO-MAY-CALL: the set of root functions containing a direct call of callee equals expected
        (patterns). New callers and vanished callers are both violations."""
        got = self.facts.callers_of(callee)
        got = {k: v for k, v in got.items() if not any(core.name_matches(i, core.alt_names(k)) for i in ignore)}
        self.per_rule[self.rule]['sites'] += sum(len(v) for v in got.values())
        matched = set()
        cname = callee if isinstance(callee, str) else '|'.join(callee)
        for path, sites in sorted(got.items()):
            names = core.alt_names(path)
            hit = [e for e in expected if core.name_matches(e, names)]
            ok = bool(hit)
            if not ok and self._only_reached_from(path, expected, 3):
                # an extracted helper: every (transitive, depth<=3) caller of the new caller is a
                # confirmed caller, so no new entry path to the callee exists
                ok = True
                self.notes.append('%s: %s accepted as a helper of confirmed callers of %s' % (self.rule, path, cname))
            self._ob(ok, self.sample('caller', sites[0].fn, sites[0].line, '%s calls %s' % (path, cname)))
            if ok:
                matched.update(hit)
            else:
                self.violate('new-caller|%s|%s' % (cname, path),
                             'WHO-MAY-CALL: new caller `%s` of `%s` (not in the confirmed table %s) -- confirm and add it' % (path, cname, sorted(expected)),
                             sites[0].fn, sites[0].line)
        for e in expected:
            if e not in matched and e not in allow_missing:
                self._ob(False)
                self.violate('lost-caller|%s|%s' % (cname, e),
                             'WHO-MAY-CALL: confirmed caller `%s` of `%s` no longer calls it (floor)' % (e, cname))
        return got

    def _only_reached_from(self, path, expected, depth):
        f = self.facts.fns.get(path)
        if f is None or f.vis == 'pub':
            return False
        cs = self.facts.callers_of(path)
        cs = {p: v for p, v in cs.items() if p != path}
        if not cs:
            return False
        for p in cs:
            if any(core.name_matches(e, core.alt_names(p)) for e in expected):
                continue
            if depth > 1 and self._only_reached_from(p, expected, depth - 1):
                continue
            return False
        return True

    def no_reach(self, roots, targets, what=None):
        """NO-REACH: no function matching `targets` is reachable in the call graph from roots."""
        rootfns = []
        for r in roots:
            f = self.fn(r)
            if f is not None:
                rootfns.append(f)
        seen = self.facts.reachable_from([f.path for f in rootfns])
        # direct calls to non-local targets are also looked for in every reachable fn
        bad = []
        for p in sorted(seen):
            f = self.facts.fns.get(p)
            if f is None:
                continue
            if any(core.name_matches(t, f.names) for t in targets) and f not in rootfns:
                bad.append((f, f.line, 'function itself'))
            for c in f.calls:
                if c.matches(targets):
                    bad.append((f, c.line, 'call of %s' % c.callee))
        self._ob(not bad, self.sample('no-reach', rootfns[0] if rootfns else None, rootfns[0].line if rootfns else None,
                                      '%d functions reachable from %s; none is/calls %s' % (len(seen), roots, list(targets))))
        for f, line, w in bad[:5]:
            self.violate('reach|%s|%s|%s' % ('+'.join(roots), '+'.join(targets), f.path),
                         'NO-REACH violated: from %s, %s reachable in `%s`' % (roots, w, f.path), f, line)
        return seen

    def no_direct(self, f, patterns, what=None):
        if f is None:
            return
        bad = f.family_calls_to(patterns)
        self._ob(not bad, self.sample('no-direct', f, f.line, what or ('no direct call of %s' % (patterns,))))
        if bad:
            self.violate('direct|%s|%s' % (f.path, '+'.join(patterns)), 'forbidden direct call of %s: %s' % (bad[0].callee, what or ''), f, bad[0].line)

    # ------------------------------------------------------------------ flow
    def flows(self, f, point, argidx, from_call=None, from_arg=None, what=None):
        """ARG-FLOW: argument argidx of the call at point derives from a call of `from_call` /
        from parameter `from_arg` (all given sources are required)."""
        if f is None or point is None:
            return
        t = point.fn.blocks[point.bb]['t']
        if argidx >= len(t['a']):
            self._ob(False)
            self.violate('flow|%s|%s|arg%d' % (f.path, point.desc, argidx), 'call has no argument %d' % argidx, point.fn, point.line)
            return
        o = t['a'][argidx]
        self._flows_operand(point.fn, o, point, 'arg%d' % argidx, from_call, from_arg, what)

    def _flows_operand(self, fn, o, point, oname, from_call, from_arg, what):
        _ls, calls, args, consts = core.flow_sources(fn, o)
        ok = True
        missing = []
        for pat in ([from_call] if isinstance(from_call, str) else (from_call or [])):
            hit = any(core.CallSite(fn, bb, fn.blocks[bb]['t']).matches(pat) for bb in calls)
            if not hit:
                ok = False
                missing.append('call ' + pat)
        for nm in ([from_arg] if isinstance(from_arg, str) else (from_arg or [])):
            if not any(fn.local_name(l) == nm for l in args):
                ok = False
                missing.append('parameter ' + nm)
        desc = what or ('%s of %s derives from %s%s' % (oname, point.desc, from_call or '', (' param ' + str(from_arg)) if from_arg else ''))
        self._ob(ok, self.sample('flow', fn, point.line, desc))
        if not ok:
            self.violate('flow|%s|%s|%s|%s' % (fn.path, point.desc, oname, '+'.join(missing)),
                         'ARG-FLOW violated: %s of %s does not derive from %s' % (oname, point.desc, ', '.join(missing)), fn, point.line)

    def const_arg(self, f, point, argidx, value, what=None):
        if f is None or point is None:
            return
        t = point.fn.blocks[point.bb]['t']
        o = t['a'][argidx] if argidx < len(t['a']) else None
        ok = o is not None and o[0] == 'k' and o[2] == value
        if not ok and o is not None and o[0] in ('c', 'm'):
            # a local assigned exactly one constant
            term = core.sym(point.fn).operand(o)
            ok = term[0] == 'const' and term[2] == value
        self._ob(ok, self.sample('const-arg', point.fn, point.line, what or ('arg%d of %s is const %r' % (argidx, point.desc, value))))
        if not ok:
            self.violate('const-arg|%s|%s|arg%d' % (point.fn.path, point.desc, argidx),
                         'argument %d of %s is not the constant %r' % (argidx, point.desc, value), point.fn, point.line)

    # ------------------------------------------------------------------ locks
    def held(self, f, points, lock_desc, what=None):
        """HELD-LOCK: at each point a guard whose lock class description ends with lock_desc is live."""
        if f is None:
            return
        for p in points:
            # must-analysis: the guard is live on EVERY path reaching the point
            classes = core.held_classes_at(p.fn, p.bb, p.idx, must=True) | {'ty:' + t for t in core.held_types_at(p.fn, p.bb, p.idx, must=True)}
            descs = [lock_desc] if isinstance(lock_desc, str) else list(lock_desc)
            ok = any(c == d or c.endswith('.' + d) or c.endswith(d) for c in classes for d in descs)
            self._ob(ok, self.sample('held', p.fn, p.line, what or ('%s under lock %s (held: %s)' % (p.desc, lock_desc, sorted(classes)))))
            if not ok:
                self.violate('held|%s|%s|%s' % (p.fn.path, p.desc, lock_desc),
                             'HELD-LOCK violated: %s executes without a live guard of `%s` (live: %s)' % (p.desc, lock_desc, sorted(classes)), p.fn, p.line)

    def not_held(self, f, points, lock_desc, what=None):
        for p in points:
            classes = core.held_classes_at(p.fn, p.bb, p.idx)
            bad = [c for c in classes if c == lock_desc or c.endswith('.' + lock_desc) or c.endswith(lock_desc)]
            self._ob(not bad, self.sample('not-held', p.fn, p.line, what or ('%s not under lock %s' % (p.desc, lock_desc))))
            if bad:
                self.violate('not-held|%s|%s|%s' % (p.fn.path, p.desc, lock_desc),
                             'lock `%s` is held at %s' % (lock_desc, p.desc), p.fn, p.line)

    # ------------------------------------------------------------------ misc
    def check(self, ok, key, msg, fn=None, line=None, sample=None):
        self._ob(ok, self.sample('check', fn, line, sample or msg) if fn else {'rule': self.rule, 'cfg': self.cfg, 'kind': 'check', 'what': sample or msg})
        if not ok:
            self.violate(key, msg, fn, line)

    def note(self, s):
        self.notes.append(s)


def _gkey(guards):
    out = []
    for g in guards:
        if g.call is not None:
            out.append('call:%s=%s' % (g.call if isinstance(g.call, str) else '/'.join(g.call), 'cmp' if g.cmp else '/'.join(sorted(g.vals))))
        else:
            out.append('place:%s=%s' % (g.place, 'cmp' if g.cmp else '/'.join(sorted(g.vals))))
    return ','.join(out)
