from rules import shared as S

DOC = {
    'explanation': 'C16 structural clauses: savepoint capture serialised with set_dirty under the tables lock, freed-pages lock never held across a tree descent, frozen lock-nesting table with forbidden orders, try_lock for second stripes, horizon clamp, no lock across user closures, Send/Sync witnesses',
    'decided': [],
    'not_decided': ['result equivalence under all interleavings', 'the relaxed PageTracker.tracking flag', 'crate-wide lock-graph acyclicity through generic/dyn calls and drop glue (not armed: the over-approximate graph would raise false alarms)'],
}

WITNESSES = ['C16W1Fail', 'C16W1Twin', 'C16W2Fail', 'C16W2Twin']


def rules(ctx):
    S.c16_rules(ctx)
    S.c07_rules(ctx)
    S.c02_r3_free_horizon(ctx)
    S.c06_r5_tracking(ctx)
    S.c06_r1_freed_merged(ctx)
    S.c05_r1_abort_path(ctx)
    S.c02_r4_who_frees(ctx)
    S.c02_r5_free_leaves_caches(ctx)
    S.tracker_state_rules(ctx)
    S.savepoint_counter_rules(ctx)
    # eviction I/O happens inside flush_lowest_priority, i.e. under the stripe lock the caller holds
    S.c08_r1_one_door(ctx)
    S.untracked_allocation_rules(ctx)
    S.snapshot_atomic_rules(ctx)
    S.round4_residue_rules(ctx)
