from rules import shared as S

DOC = {
    'explanation': 'C03 structural clauses: single write slot under the tracker lock, slot-before-roots, root publication owners and ordering, no publication from abort/drop/poisoned commit, lock order, deferred close handoff',
    'decided': [],
    'not_decided': ['linearizability of histories under preemption (needs schedule exploration)'],
}

WITNESSES = ['C01W1Fail', 'C01W1Twin', 'C01W2Fail', 'C01W2Twin']


def rules(ctx):
    S.c03_r1_write_slot(ctx)
    S.c03_r2_slot_before_roots(ctx)
    S.c03_r3_publication_owners(ctx)
    S.c01_r1_commit_protocol(ctx)
    S.c01_r4_non_durable(ctx)
    S.c03_r4_no_publish_on_abort(ctx)
    S.c03_r6_deferred_close(ctx)
    S.c02_r1_register_atomic(ctx)
    S.c02_r2_register_before_root(ctx)
    S.c08_r8_flush_keeps_page(ctx)
    S.c12_db_rules(ctx)
    S.c02_r7_pending_pins(ctx)
    S.refcount_rules(ctx)
    S.handle_close_rules(ctx)
    S.commit_mode_setter_rules(ctx)
    S.state_writer_rules(ctx)
    S.header_codec_rules(ctx)
    S.c01_r2_grow(ctx)
    S.root_pair_rules(ctx)
    S.tree_root_update_rules(ctx)
    S.flush_take_rules(ctx)
    S.oldest_search_rules(ctx)
    S.full_range_rules(ctx)
    S.c12_tree_rules(ctx)
    S.snapshot_atomic_rules(ctx)
