from rules import shared as S

DOC = {
    'explanation': 'C20 structural clauses: all backend access through CheckedBackend behind check_failure, closed-means-failed, close exactly once (owner chain + guards + atomic handoff), failed opens close via Drop, page addresses validated, shrink derives from trailing free pages, read-only wrapper',
    'decided': [],
    'not_decided': ['that every offset/length lies within the current length', 'that a read-only open issues no write (value conditions on file contents)'],
}

WITNESSES = ['C20W1Fail', 'C20W2Fail', 'C20W1Twin']


def rules(ctx):
    S.c08_r1_one_door(ctx)
    S.c08_r2_check_then_latch(ctx)
    S.c20_r1_closed_means_failed(ctx)
    S.c20_r2_close_once(ctx)
    S.c03_r6_deferred_close(ctx)
    S.c20_r3_failed_open(ctx)
    S.c20_r4_page_addresses(ctx)
    S.c20_r5_shrink(ctx)
    S.c01_r1_commit_protocol(ctx)
    S.c20_r6_read_only(ctx)
    S.c01_r2_grow(ctx)
    S.c08_r4_refused_after_failure(ctx)
    S.c01_r8_open_recovery(ctx)
    S.survey_residue_rules(ctx)
    S.restore_commit_rules(ctx)
    S.create_only_when_empty_rules(ctx)
    S.flush_take_rules(ctx)
    S.open_reads_within_length_rules(ctx)
    S.cache_reset_rules(ctx)
    S.c01_r3_owners(ctx)
