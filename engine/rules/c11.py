from rules import shared as S
from rules import late as L

DOC = {'explanation': 'C11 structural clauses (see DESIGN.md section 5)', 'decided': [], 'not_decided': []}


def rules(ctx):
    S.c11_rules(ctx)
    S.c01_r8_open_recovery(ctx)
    S.c01_r9_clean_close(ctx)
    S.c05_r1_abort_path(ctx)
    S.c06_r4_rebuild(ctx)
    S.c12_db_rules(ctx)
    S.walker_rules(ctx)
    S.full_range_rules(ctx)
    S.c20_r4_page_addresses(ctx)
    S.c14_rules(ctx)
    S.refcount_rules(ctx)
    S.allocator_snapshot_complete_rules(ctx)
    S.system_freed_store_rules(ctx)
    S.mutator_release_rules(ctx)
    S.free_verdict_rules(ctx)
    S.key_compare_rules(ctx)
    S.root_pair_rules(ctx)
    S.replaced_range_rules(ctx)
    S.survey_residue_rules(ctx)
    S.relocation_content_rules(ctx)
    S.survey2_rules(ctx)
    S.round4_residue_rules(ctx)
    S.survey3_rules(ctx)
    S.own_growth_rules(ctx)
    S.round5_rules(ctx)
    L.round7_rules(ctx)
