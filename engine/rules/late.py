"""Rules added from the second deletion survey's residue (kept apart from shared.py only for
development convenience; they use the same kit)."""
from rulekit import Guard, cpoint, Point
import core
from rules import shared as S

PA = S.PA
MH = 'MutateHelper'


def inplace_edit_rules(ctx):
    """C10.R13: the copy-on-write mutator edits a page of its own transaction in place instead of
    rebuilding it.  On those paths the only thing that makes the tree change is the mutator call on
    the page just opened for writing: every success path from the `get_page_mut` passes it, and it
    is given the function's own position / child / index arguments."""
    ctx.set_rule('C10.R13', 'a page opened for in-place editing is edited on every success path, with the caller\'s position and child')
    table = [
        (MH + '::replace_branch_child', ['BranchMutator::write_child_page'], [(1, 'child_index'), (2, 'new_child')]),
        (MH + '::delete_leaf_indexes', ['LeafMutator::remove_indices'], [(1, 'indexes')]),
        (MH + '::delete_leaf_at_position', ['AccessGuard::remove_on_drop'], [(3, 'position')]),
        (MH + '::insert_helper', ['LeafMutator::insert', 'LeafMutator::replace', 'BranchMutator::write_child_page'], []),
    ]
    n = 0
    for pat, through, argmap in table:
        f = ctx.fn(pat)
        if f is None:
            continue
        gps = ctx.sites(f, PA + '::get_page_mut', floor=1)
        th = []
        for t in through:
            th += ctx.sites(f, t, floor=1)
        for g in gps:
            n += 1
            ctx.must_pass(f, th, start=g, exits='success', what='the page opened with get_page_mut is edited (%s) before the function reports success' % ' / '.join(x.split('::')[-1] for x in through))
        for (idx, nm) in argmap:
            for p in th:
                ctx.flows(f, p, idx, from_arg=nm)
    f = ctx.fn(MH + '::insert_helper')
    if f is not None:
        wc = ctx.sites(f, 'BranchMutator::write_child_page', floor=1)
        for p in wc:
            ctx.flows(f, p, 2, from_call=MH + '::insert_helper', what='the child pointer written in place is the root the recursion returned')
            ctx.flows(f, p, 3, from_call=MH + '::insert_helper', what='the child checksum written in place is the one the recursion returned')
    f = ctx.fn(MH + '::insert_inplace_helper')
    if f is not None:
        rp = ctx.sites(f, 'LeafMutator::replace', exact=1)
        wc = ctx.sites(f, 'BranchMutator::write_child_page', exact=1)
        ctx.must_pass(f, rp + wc, exits='success', what='insert_inplace rewrites the value in the leaf and re-marks every branch on the way as unchecksummed')
        rec = ctx.sites(f, MH + '::insert_inplace_helper', exact=1)
        ctx.order(f, rec, wc, 'the branch entry is re-marked after the child was edited')
        n += 1
    ctx.check(n >= 6, 'floor|inplace-sites', 'in-place edit sites analysed: %d' % n)


def get_mut_cow_rules(ctx):
    """C06.R17: `BtreeMut::get_mut` hands out a writable view of a value.  A page of an earlier commit
    on the way down is not written: it is copied to a page of this transaction, the old one is queued
    for release, and the parent (or the root) is re-pointed at the copy with a deferred checksum."""
    ctx.set_rule('C06.R17', 'get_mut copies a committed page before writing: copy made, old page queued, parent re-pointed')
    n = 0
    for pat in ('BtreeMut::get_mut', 'BtreeMut::get_mut_helper'):
        f = ctx.fn(pat)
        if f is None:
            continue
        n += 1
        al = ctx.sites(f, PA + '::allocate', exact=1)
        cp = ctx.sites(f, 'copy_from_slice', exact=1)
        pu = ctx.sites(f, 'Vec::push', exact=1)
        gm = ctx.sites(f, PA + '::get_page_mut', exact=1)
        un = ctx.sites(f, PA + '::uncommitted', exact=1)
        ctx.guarded(f, gm, [S.true_of(PA + '::uncommitted')], 'a page is opened for writing only when this transaction allocated it')
        ctx.guarded(f, al, [S.false_of(PA + '::uncommitted')], 'the copy is made for pages of earlier commits')
        if not al:
            continue
        ctx.must_pass(f, cp, start=al[0], exits='success', what='the new page receives the old page\'s bytes')
        ctx.must_pass(f, pu, start=al[0], exits='success', what='the page that was copied is queued for release')
        for p in cp:
            ctx.flows(f, p, 0, from_call=PA + '::allocate', what='the copy target is the freshly allocated page')
            ctx.flows(f, p, 1, from_call=PA + '::get_page', what='the copy source is the old page')
        s_ = core.sym(f)
        gp = [c for c in f.calls_to(PA + '::get_page')]
        if pat.endswith('get_mut_helper'):
            wc = ctx.sites(f, 'BranchMutator::write_child_page', exact=1)
            ctx.must_pass(f, wc, start=al[0], exits='success', what='the parent branch is re-pointed at the copy')
            for p in wc:
                ctx.flows(f, p, 1, from_call='BranchAccessor::child_for_key', what='the entry re-pointed is the child that was descended into')
                ctx.flows(f, p, 2, from_call=PA + '::allocate', what='the parent points at the copy')
            for p in pu:
                ctx.flows(f, p, 1, from_call='BranchAccessor::child_for_key', what='the queued page is the child that was copied')
            for c in gp:
                ctx.flows(f, cpoint(c), 1, from_call='BranchAccessor::child_for_key', what='the page copied is the child that was descended into')
        else:
            rs = [p for p, st in S._field_store_points(f, 'root') if st[2]['k'] == 'use' and st[2]['o'][0] != 'k' and core.flows_from_call(f, st[2]['o'], PA + '::allocate')]
            ok_ = len(rs) == 1
            ctx._ob(ok_, ctx.sample('stores', f, f.line, 'root.root = new_page.get_page_number()'))
            if not ok_:
                ctx.violate('floor|%s|root-repointed' % f.path, 'after the root page was copied, the tree root must be re-pointed at the copy (found %d such stores)' % len(rs), f, f.line)
            else:
                ctx.must_pass(f, rs, start=al[0], exits='success', what='the root is re-pointed at the copy')
            cs_ = [p for p, st in S._field_store_points(f, 'checksum')]
            ok2 = len(cs_) == 1
            ctx._ob(ok2, ctx.sample('stores', f, f.line, 'root.checksum = DEFERRED'))
            if not ok2:
                ctx.violate('floor|%s|root-checksum-deferred' % f.path, 'the re-pointed root must be marked as not yet checksummed (found %d stores of `checksum`)' % len(cs_), f, f.line)
            else:
                ctx.must_pass(f, cs_, start=al[0], exits='success', what='the re-pointed root is marked DEFERRED')
    ctx.check(n >= 2, 'floor|get-mut', 'get_mut functions analysed: %d' % n)


def verify_cycle_guard_rules(ctx):
    """C12.R10: checksum verification walks pages named by (possibly damaged) pages.  A page is read
    only after it was compared against the pages on the current path and then put on that path, so a
    cycle in a damaged file ends the walk with `false` instead of recursing without bound."""
    ctx.set_rule('C12.R10', 'the checksum walk refuses a page already on its path (and a path deeper than any valid tree) before reading it')
    f = ctx.fn('RawBtree::verify_checksum_helper')
    if f is None:
        return
    ct = ctx.sites(f, 'contains', exact=1)
    pu = ctx.sites(f, 'Vec::push', exact=1)
    gp = ctx.sites(f, 'PageResolver::get_page', exact=1)
    rec = ctx.sites(f, 'RawBtree::verify_checksum_helper', exact=1)
    for p in ct:
        ctx.flows(f, p, 1, from_arg='page_number', what='the page looked up on the path is the one about to be visited')
        ctx.flows(f, p, 0, from_arg='visited')
    for p in pu:
        ctx.flows(f, p, 1, from_arg='page_number', what='the page put on the path is the one being visited')
        ctx.flows(f, p, 0, from_arg='visited')
    ctx.guarded(f, gp + rec, [S.false_of('contains')], 'a page is read / descended into only when it is not on the current path')
    ctx.order(f, pu, rec, 'the page is on the path before its children are visited')
    for p in rec:
        ctx.flows(f, p, 3, from_arg='visited', what='the recursion shares the path')
    # the depth bound: some comparison of the path length against MAX_BTREE_DEPTH cuts get_page off
    ln = [c for c in f.calls if c.matches('Vec::len') and not f.blocks[c.bb]['c']]
    ctx.check(len(ln) >= 1, 'floor|%s|depth-bound' % f.path, 'the path length is read (depth bound)', f, f.line)
    if ln:
        ctx.guarded_cmp(f, gp, [Guard(call='Vec::len', cmp=True)], 'a page is read only below the depth bound')


def depth_bound_rules(ctx):
    """C12.R11: the recursive descents over child pointers read from pages carry a depth and refuse
    to go below MAX_BTREE_DEPTH, and the depth they pass down grows; a damaged file whose pointers
    form a cycle is reported as corrupted (or unverified) rather than followed without bound."""
    ctx.set_rule('C12.R11', 'recursive page walks are depth-bounded: the recursion is control-dependent on a test of the depth, and the depth passed down is derived from the current one')
    n = 0
    f = ctx.fn('UntypedBtree::visit_pages_helper') or ctx.fn('visit_pages_helper')
    if f is not None:
        n += 1
        rec = [cpoint(c) for c in f.calls if c.callee and c.callee.endswith('visit_pages_helper') and not f.blocks[c.bb]['c']]
        ctx.check(len(rec) >= 1, 'floor|%s|recursion' % f.path, 'the page walk recurses into children', f, f.line)
        gp = ctx.sites(f, 'get_page', exact=1)
        ctx.guarded_cmp(f, gp + rec, [Guard(call='PagePath::depth', cmp=True)], 'a page is visited only below the depth bound')
        wc = ctx.sites(f, 'PagePath::with_child', exact=1)
        for p in rec:
            ctx.flows(f, p, 1, from_call='PagePath::with_child', what='the path handed down is the current path extended by the child')
        for p in wc:
            ctx.flows(f, p, 1, from_call='BranchAccessor::child_page', what='the path is extended by the child about to be visited')
        if f.calls_to('contains'):
            ct = ctx.sites(f, 'contains', exact=1)
            for p in ct:
                ctx.flows(f, p, 1, from_call='BranchAccessor::child_page', what='the child is looked up among its own ancestors')
                ctx.flows(f, p, 0, from_call='PagePath::parents')
            ctx.guarded(f, rec, [S.false_of('contains')], 'a child that is one of its own ancestors is not descended into')
        else:
            # the test moved into a local predicate: a bool function that looks its argument up
            # in PagePath::parents
            preds = []
            for c in f.calls:
                if f.blocks[c.bb]['c'] or not c.callee or c.t.get('dty') != 'bool':
                    continue
                try:
                    g = ctx.facts.fn(c.callee)
                except core.AnchorError:
                    continue
                inner = [x for fam in g.family() for x in fam.calls_to('contains')]
                if inner and all(x.t['a'][0][0] != 'k' and core.flows_from_call(x.fn, x.t['a'][0], 'PagePath::parents') for x in inner):
                    preds.append(c)
            ok_ = len(preds) == 1
            ctx._ob(ok_, ctx.sample('sites', f, f.line, 'the ancestor test (directly or through one local predicate)'))
            if not ok_:
                ctx.violate('floor|%s|ancestor-test' % f.path, 'expected the ancestor test (`parents().contains(child)`, directly or in one local predicate), found %d' % len(preds), f, f.line)
            for c in preds:
                okf = any(a[0] != 'k' and core.flows_from_call(f, a, 'BranchAccessor::child_page') for a in c.t['a'])
                ctx._ob(okf, ctx.sample('flow', f, c.line, 'the child is handed to the ancestor test'))
                if not okf:
                    ctx.violate('flow|%s|ancestor-test-child' % f.path, 'the ancestor test is not applied to the child about to be visited', f, c.line)
                ctx.guarded(f, rec, [S.false_of(core.strip_generics(c.callee))], 'a child that is one of its own ancestors is not descended into')
    for pat in ('Btree::first_helper', 'Btree::last_helper'):
        f = ctx.fn(pat)
        if f is None:
            continue
        n += 1
        rec = ctx.sites(f, pat, exact=1)
        ctx.guarded_cmp(f, rec, [Guard(place='depth', cmp=True)], 'the descent continues only below the depth bound')
        for p in rec:
            o = p.call.t['a'][2]
            t = core.sym(f).operand(o) if o[0] != 'k' else None
            grows = False
            # depth + 1: an Add (checked or not) whose operand is the parameter
            for b_ in f.blocks:
                for st in b_['s']:
                    if st[0] == 'a' and st[2]['k'] in ('bin', 'cbin') and st[2]['op'] in ('Add', 'AddWithOverflow', 'AddUnchecked'):
                        ops = st[2]['o']
                        if any(x[0] != 'k' and core.flows_from_arg(f, x, 'depth') for x in ops) and any(x[0] == 'k' and str(x[2]) == '1' for x in ops):
                            grows = True
            ok_ = o[0] != 'k' and core.flows_from_arg(f, o, 'depth') and grows
            ctx._ob(ok_, ctx.sample('flow', f, p.line, 'the depth passed down is depth + 1'))
            if not ok_:
                ctx.violate('flow|%s|depth-grows' % f.path, 'the depth passed to the recursive call must be the current depth plus one', f, p.line)
    ctx.check(n >= 3, 'floor|depth-bounded-walks', 'depth-bounded recursive walks analysed: %d' % n)


def retain_poison_report_rules(ctx):
    """C05.R13: `retain` learns from the cursor whether a failure left half-applied removals behind,
    and the table wrapper poisons the transaction on that answer.  The answer is written to the
    caller's flag on every exit of retain_in_helper, from CursorMut::poisoned, and the flag handed
    down by retain_in_bounds is the caller's own."""
    ctx.set_rule('C05.R13', 'a failed retain reports whether the cursor was poisoned to the caller that poisons the transaction')
    S.store_rule(ctx, 'BtreeMut::retain_in_helper', None, ('call', 'CursorMut::poisoned'), 'the caller\'s flag receives the cursor\'s verdict', deref_name='poisoned', exits='any')
    f = ctx.fn('BtreeMut::retain_in_helper')
    if f is not None:
        sc = ctx.sites(f, 'BtreeMut::retain_scan', exact=1)
        st = [p for p, _s in S._field_store_points(f, None, 'poisoned')]
        ctx.order(f, sc, st, 'the verdict is read after the scan (and its best-effort finish) ran')
    f = ctx.fn('BtreeMut::retain_in_bounds')
    if f is not None:
        h = ctx.sites(f, 'BtreeMut::retain_in_helper', exact=1)
        for p in h:
            ctx.flows(f, p, 5, from_arg='poisoned', what='the helper writes the caller\'s flag')


def split_root_and_drop_rules(ctx):
    """C10.R14: the two places where the structural edit is a single call that nothing else repeats:
    a root split builds a branch over *both* halves with the separator between them; the guard
    returned by an in-place removal performs the removal when it is dropped; a rebuilt branch with
    one replaced child replaces exactly that child."""
    ctx.set_rule('C10.R14', 'root split links both halves; the remove-on-drop guard removes its entry; a rebuilt branch replaces the named child')
    f = ctx.fn(MH + '::insert')
    if f is not None:
        bn = ctx.sites(f, 'BranchBuilder::new', exact=1)
        pc = ctx.sites(f, 'BranchBuilder::push_child', exact=2)
        pk = ctx.sites(f, 'BranchBuilder::push_key', exact=1)
        bb_ = [cpoint(c) for c in f.calls if c.matches('BranchBuilder::build') and not f.blocks[c.bb]['c']]
        ctx.check(len(bb_) == 1, 'floor|%s|branch-build' % f.path, 'one branch page is built for a split root', f, f.line)
        if bn and bb_:
            for p in pc + pk:
                # each of the three pushes separately lies on every path from new to build
                ctx.order(f, [p], bb_, start=bn[0], what='%s precedes build on every path' % p.desc)
        srcs = set()
        for p in pc:
            a = p.call.t['a'][1]
            d = core.sym(f).describe(core.sym(f).operand(a)) if a[0] != 'k' else ''
            srcs.add('sibling' if 'additional_sibling' in d else ('root' if 'new_root' in d else d))
        ok_ = srcs == {'sibling', 'root'}
        ctx._ob(ok_, ctx.sample('flow', f, f.line, 'the two children are the insertion\'s new root and its additional sibling'))
        if not ok_:
            ctx.violate('flow|%s|both-halves' % f.path, 'the branch built for a split root must name both the new root and the additional sibling (found %s)' % sorted(srcs), f, f.line)
    f = ctx.fn('<AccessGuard as Drop>::drop') or None
    if f is not None:
        rm = ctx.sites(f, 'LeafMutator::remove', exact=1)
        e_other = core.guard_edges(f, [Guard(place='self.on_drop', vals={'None'}), Guard(place='self.page', vals={'Immutable', 'ArcMemory', 'OwnedMemory'})])
        ctx.guarded(f, rm, [Guard(place='self.on_drop', vals={'RemoveEntry'})], 'the entry is removed only by a remove-on-drop guard')
        ctx.must_pass(f, rm, exits='any', extra_cut_edges=e_other, what='a remove-on-drop guard over a writable page removes its entry when dropped')
        for p in rm:
            a = p.call.t['a'][1]
            d = core.sym(f).describe(core.sym(f).operand(a)) if a[0] != 'k' else ''
            ok_ = 'position' in d
            ctx._ob(ok_, ctx.sample('flow', f, p.line, 'the entry removed is the recorded position'))
            if not ok_:
                ctx.violate('flow|%s|position' % f.path, 'the entry removed on drop must be the guard\'s recorded position (found `%s`)' % d, f, p.line)
    f = ctx.fn(MH + '::replace_branch_child')
    if f is not None:
        bn = ctx.sites(f, 'BranchBuilder::new', exact=1)
        rc = ctx.sites(f, 'BranchBuilder::replace_child', exact=1)
        pa = ctx.sites(f, 'BranchBuilder::push_all', exact=1)
        bb_ = [cpoint(c) for c in f.calls if c.matches('BranchBuilder::build') and not f.blocks[c.bb]['c']]
        if bn and bb_:
            ctx.order(f, rc, bb_, start=bn[0], what='the named child is replaced before the rebuilt branch is built')
            ctx.order(f, pa, rc, start=bn[0], what='the old entries are copied before one of them is replaced')
        for p in rc:
            ctx.flows(f, p, 1, from_arg='child_index')
            ctx.flows(f, p, 2, from_arg='new_child')


def _slice_has_arith(f, operand, depth=0):
    """does the value of `operand` -- followed through copies, casts, `?`/unwrap-style calls,
    aggregates (ranges) and the iterator chain of a `for` loop -- pass through an integer add or
    subtract?  (Symbolic terms only: no whole-function slice.)"""
    s = core.sym(f)
    ARITH = ('Add', 'Sub')
    seen = set()

    def walk(t, d):
        if d > 14 or t is None or id(t) in seen:
            return False
        if not isinstance(t, tuple) or not t:
            return False
        k = t[0]
        if k == 'cmp':
            if str(t[1]).startswith(ARITH):
                return True
            return any(walk(x, d + 1) for x in t[2:] if isinstance(x, tuple))
        if k == 'place':
            return walk(t[1], d + 1)
        if k == 'agg' and len(t) >= 5:
            st = f.blocks[t[3]]['s'][t[4]]
            return any(o[0] != 'k' and walk(s.operand(o), d + 1) for o in st[2].get('o', []))
        if k == 'call':
            cs = core.CallSite(f, t[1], f.blocks[t[1]]['t'])
            nm = (cs.declared or cs.callee or '').split('::')[-1]
            if nm in ('next', 'next_back', 'into_iter', 'rev', 'unwrap', 'try_into', 'into', 'from', 'expect', 'clone') and cs.t['a']:
                return any(a[0] != 'k' and walk(s.operand(a), d + 1) for a in cs.t['a'][:1])
            return False
        if k in ('cast', 'un'):
            return any(walk(x, d + 1) for x in t[1:] if isinstance(x, tuple))
        return False

    if operand[0] == 'k':
        return False
    return walk(s.operand(operand), 0)


def round7_rules(ctx):
    # --- shrink: the regions dropped from the tracker are the regions dropped from the list
    ctx.set_rule('C14.R3', 'a region is marked full only on evidence')
    f = ctx.fn('Allocators::resize_to')
    if f is not None:
        mfull = ctx.sites(f, 'RegionTracker::mark_full', exact=1)
        dr = ctx.sites(f, 'Vec::drain', exact=1)
        for p in mfull:
            bad = _slice_has_arith(f, p.call.t['a'][2])
            ctx._ob(not bad, ctx.sample('flow', f, p.line, 'the first region marked full is new_layout.num_regions() itself'))
            if bad:
                ctx.violate('flow|%s|mark-full-offset' % f.path, 'the index range of regions marked full is offset from new_layout.num_regions(): a surviving region would be reported full (or a removed one left marked free)', f, p.line)
        for p in dr:
            ctx.flows(f, p, 1, from_call='DatabaseLayout::num_regions', what='the allocators drained are those from new_layout.num_regions() on')
            bad = _slice_has_arith(f, p.call.t['a'][1])
            ctx._ob(not bad, ctx.sample('flow', f, p.line, 'the first allocator drained is new_layout.num_regions() itself'))
            if bad:
                ctx.violate('flow|%s|drain-offset' % f.path, 'the range of region allocators dropped on shrink is offset from new_layout.num_regions()', f, p.line)
        ctx.order(f, mfull, dr, 'removed regions are marked full before their allocators are dropped') if False else None
    # --- a second restore in one transaction replaces the rollback point
    ctx.set_rule('C07.R15', 'every restore sets the rollback point to the savepoint just restored: it is never merged upwards with an earlier one')
    f = ctx.fn(S.WT + '::restore_savepoint_inner')
    if f is not None:
        pts = S._field_store_points(f, 'restored_transaction')
        ok_ = len(pts) == 1
        ctx._ob(ok_, ctx.sample('stores', f, f.line, 'restored_transaction is stored once'))
        if not ok_:
            ctx.violate('floor|%s|restored_transaction' % f.path, 'expected one store of restored_transaction, found %d' % len(pts), f, f.line)
        for p, st in pts:
            ops = S._rv_operands(st[2])
            src = any(o[0] != 'k' and core.flows_from_call(f, o, 'Savepoint::get_transaction_id') for o in ops)
            ctx._ob(src, ctx.sample('flow', f, p.line, 'the rollback point is the restored savepoint\'s transaction'))
            if not src:
                ctx.violate('flow|%s|restored-id' % f.path, 'restored_transaction does not derive from the restored savepoint\'s transaction id', f, p.line)
            mx = False
            for o in ops:
                if o[0] == 'k':
                    continue
                _l, calls, _a, _k = core.flow_sources(f, o)
                for bb in calls:
                    cs = core.CallSite(f, bb, f.blocks[bb]['t'])
                    if cs.matches(('Ord::max', 'cmp::max', 'Iterator::max')):
                        mx = True
            ctx._ob(not mx, ctx.sample('flow', f, p.line, 'the rollback point is not the maximum of the old and the new one'))
            if mx:
                ctx.violate('flow|%s|restored-max' % f.path, 'the rollback point is merged with the previous one by max(): after restoring a newer and then an older savepoint in one transaction, the freed-page records of the commits between them would survive the restore', f, p.line)
