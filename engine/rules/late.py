"""Rules added from the second deletion survey's residue (kept apart from shared.py only for
development convenience; they use the same kit)."""
from rulekit import Guard, cpoint, Point
import core
from rules import shared as S

PA = S.PA
MH = 'MutateHelper'


def inplace_edit_rules(ctx):
    """C10.R13: the copy-on-write mutator edits a page of its own transaction in place instead of
    rebuilding it.  On those paths the only thing that makes the tree change is the mutator call on
    the page just opened for writing: every success path from the `get_page_mut` passes it, and it
    is given the function's own position / child / index arguments."""
    ctx.set_rule('C10.R13', 'a page opened for in-place editing is edited on every success path, with the caller\'s position and child')
    table = [
        (MH + '::replace_branch_child', ['BranchMutator::write_child_page'], [(1, 'child_index'), (2, 'new_child')]),
        (MH + '::delete_leaf_indexes', ['LeafMutator::remove_indices'], [(1, 'indexes')]),
        (MH + '::delete_leaf_at_position', ['AccessGuard::remove_on_drop'], [(3, 'position')]),
        (MH + '::insert_helper', ['LeafMutator::insert', 'LeafMutator::replace', 'BranchMutator::write_child_page'], []),
    ]
    n = 0
    for pat, through, argmap in table:
        f = ctx.fn(pat)
        if f is None:
            continue
        gps = ctx.sites(f, PA + '::get_page_mut', floor=1)
        th = []
        for t in through:
            th += ctx.sites(f, t, floor=1)
        for g in gps:
            n += 1
            ctx.must_pass(f, th, start=g, exits='success', what='the page opened with get_page_mut is edited (%s) before the function reports success' % ' / '.join(x.split('::')[-1] for x in through))
        for (idx, nm) in argmap:
            for p in th:
                ctx.flows(f, p, idx, from_arg=nm)
    f = ctx.fn(MH + '::insert_helper')
    if f is not None:
        wc = ctx.sites(f, 'BranchMutator::write_child_page', floor=1)
        for p in wc:
            ctx.flows(f, p, 2, from_call=MH + '::insert_helper', what='the child pointer written in place is the root the recursion returned')
            ctx.flows(f, p, 3, from_call=MH + '::insert_helper', what='the child checksum written in place is the one the recursion returned')
    f = ctx.fn(MH + '::insert_inplace_helper')
    if f is not None:
        rp = ctx.sites(f, 'LeafMutator::replace', exact=1)
        wc = ctx.sites(f, 'BranchMutator::write_child_page', exact=1)
        ctx.must_pass(f, rp + wc, exits='success', what='insert_inplace rewrites the value in the leaf and re-marks every branch on the way as unchecksummed')
        rec = ctx.sites(f, MH + '::insert_inplace_helper', exact=1)
        ctx.order(f, rec, wc, 'the branch entry is re-marked after the child was edited')
        n += 1
    ctx.check(n >= 6, 'floor|inplace-sites', 'in-place edit sites analysed: %d' % n)


def get_mut_cow_rules(ctx):
    """C06.R17: `BtreeMut::get_mut` hands out a writable view of a value.  A page of an earlier commit
    on the way down is not written: it is copied to a page of this transaction, the old one is queued
    for release, and the parent (or the root) is re-pointed at the copy with a deferred checksum."""
    ctx.set_rule('C06.R17', 'get_mut copies a committed page before writing: copy made, old page queued, parent re-pointed')
    n = 0
    for pat in ('BtreeMut::get_mut', 'BtreeMut::get_mut_helper'):
        f = ctx.fn(pat)
        if f is None:
            continue
        n += 1
        al = ctx.sites(f, PA + '::allocate', exact=1)
        cp = ctx.sites(f, 'copy_from_slice', exact=1)
        pu = ctx.sites(f, 'Vec::push', exact=1)
        gm = ctx.sites(f, PA + '::get_page_mut', exact=1)
        un = ctx.sites(f, PA + '::uncommitted', exact=1)
        ctx.guarded(f, gm, [S.true_of(PA + '::uncommitted')], 'a page is opened for writing only when this transaction allocated it')
        ctx.guarded(f, al, [S.false_of(PA + '::uncommitted')], 'the copy is made for pages of earlier commits')
        if not al:
            continue
        ctx.must_pass(f, cp, start=al[0], exits='success', what='the new page receives the old page\'s bytes')
        ctx.must_pass(f, pu, start=al[0], exits='success', what='the page that was copied is queued for release')
        for p in cp:
            ctx.flows(f, p, 0, from_call=PA + '::allocate', what='the copy target is the freshly allocated page')
            ctx.flows(f, p, 1, from_call=PA + '::get_page', what='the copy source is the old page')
        s_ = core.sym(f)
        gp = [c for c in f.calls_to(PA + '::get_page')]
        if pat.endswith('get_mut_helper'):
            wc = ctx.sites(f, 'BranchMutator::write_child_page', exact=1)
            ctx.must_pass(f, wc, start=al[0], exits='success', what='the parent branch is re-pointed at the copy')
            for p in wc:
                ctx.flows(f, p, 1, from_call='BranchAccessor::child_for_key', what='the entry re-pointed is the child that was descended into')
                ctx.flows(f, p, 2, from_call=PA + '::allocate', what='the parent points at the copy')
            for p in pu:
                ctx.flows(f, p, 1, from_call='BranchAccessor::child_for_key', what='the queued page is the child that was copied')
            for c in gp:
                ctx.flows(f, cpoint(c), 1, from_call='BranchAccessor::child_for_key', what='the page copied is the child that was descended into')
        else:
            rs = [p for p, st in S._field_store_points(f, 'root') if st[2]['k'] == 'use' and st[2]['o'][0] != 'k' and core.flows_from_call(f, st[2]['o'], PA + '::allocate')]
            ok_ = len(rs) == 1
            ctx._ob(ok_, ctx.sample('stores', f, f.line, 'root.root = new_page.get_page_number()'))
            if not ok_:
                ctx.violate('floor|%s|root-repointed' % f.path, 'after the root page was copied, the tree root must be re-pointed at the copy (found %d such stores)' % len(rs), f, f.line)
            else:
                ctx.must_pass(f, rs, start=al[0], exits='success', what='the root is re-pointed at the copy')
            cs_ = [p for p, st in S._field_store_points(f, 'checksum')]
            ok2 = len(cs_) == 1
            ctx._ob(ok2, ctx.sample('stores', f, f.line, 'root.checksum = DEFERRED'))
            if not ok2:
                ctx.violate('floor|%s|root-checksum-deferred' % f.path, 'the re-pointed root must be marked as not yet checksummed (found %d stores of `checksum`)' % len(cs_), f, f.line)
            else:
                ctx.must_pass(f, cs_, start=al[0], exits='success', what='the re-pointed root is marked DEFERRED')
    ctx.check(n >= 2, 'floor|get-mut', 'get_mut functions analysed: %d' % n)
