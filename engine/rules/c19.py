"""C19: files stay readable across releases that share the file format.
Oracle: the same facts extracted by the same driver from the redb 3.0.0 release source (offline
registry cache, harness crate compat3/) versus the working tree."""
import os
import shutil
from rules import shared as S
import core

DOC = {
    'explanation': 'C19 format-agreement clauses: on-disk constants, tag maps in both directions, built-in type names and checksum identity agree between the working tree and the redb 3.0.0 release; branch keys are never decoded by the tree code',
    'decided': [],
    'not_decided': ['behavioural equality of contents and 3.0.0 integrity check on arbitrary files (needs running both versions)'],
    'technique': 'cross-version sibling check over rustc_private facts (constants, tag maps, type-name literals) + MIR arg-flow',
}

MUST_EXIST_CONSTS = [
    'tree_store::page_store::header::MAGICNUMBER', 'tree_store::page_store::header::GOD_BYTE_OFFSET',
    'tree_store::page_store::header::PAGE_SIZE_OFFSET', 'tree_store::page_store::header::REGION_HEADER_PAGES_OFFSET',
    'tree_store::page_store::header::REGION_MAX_DATA_PAGES_OFFSET', 'tree_store::page_store::header::NUM_FULL_REGIONS_OFFSET',
    'tree_store::page_store::header::TRAILING_REGION_DATA_PAGES_OFFSET', 'tree_store::page_store::header::TRANSACTION_SIZE',
    'tree_store::page_store::header::TRANSACTION_0_OFFSET', 'tree_store::page_store::header::TRANSACTION_1_OFFSET',
    'tree_store::page_store::header::DB_HEADER_SIZE', 'tree_store::page_store::header::PRIMARY_BIT',
    'tree_store::page_store::header::RECOVERY_REQUIRED', 'tree_store::page_store::header::TWO_PHASE_COMMIT',
    'tree_store::page_store::header::VERSION_OFFSET', 'tree_store::page_store::header::USER_ROOT_NON_NULL_OFFSET',
    'tree_store::page_store::header::SYSTEM_ROOT_NON_NULL_OFFSET', 'tree_store::page_store::header::USER_ROOT_OFFSET',
    'tree_store::page_store::header::SYSTEM_ROOT_OFFSET', 'tree_store::page_store::header::TRANSACTION_ID_OFFSET',
    'tree_store::page_store::header::SLOT_CHECKSUM_OFFSET', 'tree_store::page_store::page_manager::FILE_FORMAT_VERSION3',
    'tree_store::page_store::base::MAX_PAGE_INDEX', 'tree_store::page_store::base::MAX_REGIONS',
    'tree_store::page_store::base::MAX_VALUE_LENGTH', 'tree_store::page_store::base::MAX_PAIR_LENGTH',
    'tree_store::btree_base::LEAF', 'tree_store::btree_base::BRANCH', 'tree_store::btree_base::DEFERRED',
    'tree_store::page_store::buddy_allocator::MAX_ORDER_OFFSET', 'tree_store::page_store::buddy_allocator::NUM_PAGES_OFFSET',
    'tree_store::page_store::buddy_allocator::FREE_END_OFFSETS', 'tree_store::page_store::bitmap::HEIGHT_OFFSET',
    'tree_store::page_store::bitmap::END_OFFSETS', 'tree_store::table_tree_base::ALIGNMENT',
    'tree_store::page_store::xxh3::DEFAULT_SECRET', 'tree_store::page_store::xxh3::INIT_ACCUMULATORS',
    'tree_store::page_store::xxh3::PRIME32', 'tree_store::page_store::xxh3::PRIME64',
    'transactions::ALLOCATOR_STATE_TABLE_NAME', 'transactions::DATA_ALLOCATED_TABLE', 'transactions::DATA_FREED_TABLE',
    'transactions::SYSTEM_FREED_TABLE', 'transactions::SAVEPOINT_TABLE', 'transactions::NEXT_SAVEPOINT_TABLE',
]
# in-memory tuning constants that are not part of the file format
NOT_FORMAT = ('MAX_PAGES_PER_COMPACTION', 'UNCOMMITTED_SHARDS', 'MAX_BTREE_DEPTH', 'fast_hash', 'INITIAL_REGIONS', 'MIN_DESIRED_USABLE_BYTES', 'MIN_USABLE_PAGES', 'MAX_USABLE_REGION_SPACE', 'header::PAGE_SIZE')

TAG_MAPS = [
    # (name, writer pattern, reader pattern)
    ('TypeClassification', 'TypeClassification::to_byte', 'TypeClassification::from_byte'),
    ('TableType', '<TableType as Into<u8>>::into', '<TableType as From<u8>>::from'),
    ('DynamicCollectionType', '<DynamicCollectionType as Into<u8>>::into', '<DynamicCollectionType as From<u8>>::from'),
]


def rules(ctx):
    ctx.set_rule('C19.R5', 'branch (routing) keys are only compared, never decoded, by the tree code')
    n = 0
    for f in ctx.facts.fn_list:
        if '/tree_store/btree' not in '/' + f.file and 'btree' not in f.file:
            continue
        for c in f.calls:
            if c.matches(('Value::from_bytes', 'Key::from_bytes')) and c.t['a']:
                n += 1
                _l, calls, _a, _k = core.flow_sources(f, c.t['a'][0])
                bad = [bb for bb in calls if core.CallSite(f, bb, f.blocks[bb]['t']).matches('BranchAccessor::key')]
                ctx._ob(not bad, ctx.sample('no-flow', f, c.line, 'from_bytes argument does not derive from BranchAccessor::key'))
                if bad:
                    ctx.violate('decode-branch-key|%s' % f.path, 'a branch (routing) key is decoded with from_bytes: shortened separators written by this version are not valid encodings for every type', f, c.line)
    ctx.per_rule[ctx.rule]['sites'] += n
    ctx.check(n >= 10, 'floor|from_bytes-sites', 'from_bytes call sites in the btree code examined: %d' % n)
    keys = sum(len(f.calls_to('BranchAccessor::key')) for f in ctx.facts.fn_list)
    ctx.check(keys >= 5, 'floor|branch-key-sites', 'BranchAccessor::key call sites exist: %d' % keys)
    ctx.set_rule('C19.R4', 'checksum identity: XXH3-128 with seed 0')
    S.c10_rules.__wrapped__(ctx) if hasattr(S.c10_rules, '__wrapped__') else None
    f = ctx.fn('page_manager::xxh3_checksum')
    if f is not None:
        for p in ctx.sites(f, 'hash128_with_seed', exact=1):
            ctx.const_arg(f, p, 1, 0, 'seed 0')
    S.header_codec_rules(ctx)
    S.separator_cut_rules(ctx)


def _type_name_facts(F):
    out = {}
    for f in F.fn_list:
        if not f.path.endswith('::type_name'):
            continue
        strs = set()
        ctors = set()
        for b in f.blocks:
            t = b['t']
            if t['k'] == 'call':
                cs = core.CallSite(f, 0, t)
                cal = core.strip_generics(cs.callee or '?')
                if cal.startswith('types::TypeName::'):
                    ctors.add(cal.split('::')[-1])
                for a in t['a']:
                    if a[0] == 'k' and a[2] is not None and ('str' in a[1] or 'u8;' in a[1]):
                        strs.add(str(a[2]))
            for st in b['s']:
                if st[0] == 'a':
                    rv = st[2]
                    ops = [rv['o']] if rv['k'] in ('use', 'cast') else (rv['o'] if rv['k'] == 'agg' else [])
                    for o in ops:
                        if o and o[0] == 'k' and o[2] is not None and ('str' in o[1] or 'u8;' in o[1]):
                            strs.add(str(o[2]))
        key = f.path.replace('tree_store::multimap_btree::DynamicCollection', 'DynamicCollection').replace('multimap_table::DynamicCollection', 'DynamicCollection')
        out[key] = (strs, ctors)
    return out


def cross_version(new, old):
    """returns (obligations, violations[(key,msg)], detail dict)"""
    viol = []
    ob = 0
    detail = {'constants_compared': 0, 'constants_only_new': [], 'constants_only_old': [], 'tag_maps': {}, 'type_names_compared': 0}
    # R1 constants
    for c in MUST_EXIST_CONSTS:
        ob += 1
        if c not in new.consts or c not in old.consts:
            viol.append(('C19.R1|missing-const|%s' % c, 'format constant %s missing in %s' % (c, 'working tree' if c not in new.consts else 'redb 3.0.0')))
    for c in sorted(set(new.consts) & set(old.consts)):
        a, b = new.consts[c], old.consts[c]
        if any(x in c for x in NOT_FORMAT) and c not in MUST_EXIST_CONSTS:
            continue
        ob += 1
        detail['constants_compared'] += 1
        if a['v'] != b['v'] or a.get('strs') != b.get('strs') or (a['v'] is None and not a.get('strs') and c in MUST_EXIST_CONSTS):
            viol.append(('C19.R1|const|%s' % c, 'on-disk format constant %s differs: working tree %r/%r vs redb 3.0.0 %r/%r' % (c, a['v'], a.get('strs'), b['v'], b.get('strs'))))
    detail['constants_only_new'] = sorted(set(new.consts) - set(old.consts))
    detail['constants_only_old'] = sorted(set(old.consts) - set(new.consts))
    # serialised widths: return types of to_le_bytes
    for pat in ('BtreeHeader::to_le_bytes', 'PageNumber::to_le_bytes'):
        ob += 1
        try:
            ra, rb = new.fn(pat).d.get('ret'), old.fn(pat).d.get('ret')
            if ra != rb:
                viol.append(('C19.R1|width|%s' % pat, 'serialised width of %s differs: %s vs %s' % (pat, ra, rb)))
        except core.AnchorError as e:
            viol.append(('C19.R1|anchor|%s' % pat, str(e)))
    # R2 tag maps, both directions
    for name, w, r in TAG_MAPS:
        try:
            wn, wo = new.fn(w), old.fn(w)
            rn, ro = new.fn(r), old.fn(r)
        except core.AnchorError as e:
            ob += 1
            viol.append(('C19.R2|anchor|%s' % name, str(e)))
            continue
        en, _ = core.emitted_consts(wn)
        eo, _ = core.emitted_consts(wo)
        an, fn_ = core.accepted_values(rn)
        ao, fo_ = core.accepted_values(ro)
        detail['tag_maps'][name] = {'emitted_new': sorted(en), 'emitted_3.0.0': sorted(eo), 'accepted_new': sorted(map(str, an)), 'accepted_3.0.0': sorted(map(str, ao))}
        ob += 1
        if not en or not eo or not fn_ or not fo_:
            viol.append(('C19.R2|blind|%s' % name, 'tag map %s could not be extracted (emitted %s/%s, reader switch found %s/%s)' % (name, en, eo, fn_, fo_)))
            continue
        for v in sorted(en):
            ob += 1
            if v not in ao and '*' not in ao:
                viol.append(('C19.R2|new-writes-unreadable|%s|%d' % (name, v), 'this tree writes %s tag %d, which redb 3.0.0 `%s` does not accept (it accepts %s and panics otherwise): files containing it are unreadable by 3.0.0' % (name, v, r, sorted(map(str, ao)))))
        for v in sorted(eo):
            ob += 1
            if v not in an and '*' not in an:
                viol.append(('C19.R2|old-writes-unreadable|%s|%d' % (name, v), 'redb 3.0.0 writes %s tag %d, which this tree `%s` does not accept (accepts %s)' % (name, v, r, sorted(map(str, an)))))
    # commit slot version switch
    try:
        fn_n, fn_o = new.fn('TransactionHeader::from_bytes'), old.fn('TransactionHeader::from_bytes')
        def versions(f):
            S_ = core.sym(f)
            for bb in range(f.nb):
                t = f.blocks[bb]['t']
                if t['k'] == 'sw' and t.get('oty') == 'u8':
                    acc = set()
                    for si, (tb, label) in enumerate(f.succ(bb)):
                        r = core.reach(f, start=(tb, -1), cut_blocks=core.error_blocks(f))
                        if any(rb in r['term'] for rb in f.ret_blocks()) and label != 'otherwise':
                            acc.add(int(label))
                    return acc
            return None
        vn, vo = versions(fn_n), versions(fn_o)
        ob += 1
        detail['tag_maps']['slot_version'] = {'accepted_new': sorted(vn or []), 'accepted_3.0.0': sorted(vo or [])}
        if vn != vo or not vn:
            viol.append(('C19.R2|slot-version', 'commit slot version acceptance differs: %s vs %s' % (vn, vo)))
    except core.AnchorError as e:
        ob += 1
        viol.append(('C19.R2|anchor|slot-version', str(e)))
    # AllocatorStateKey encoding: constants used in as_bytes / from_bytes
    for pat in ('<AllocatorStateKey as Value>::as_bytes', '<AllocatorStateKey as Value>::from_bytes'):
        ob += 1
        try:
            a, b = new.fn(pat), old.fn(pat)
            def ints(f):
                s = set()
                for bl in f.blocks:
                    for st in bl['s']:
                        if st[0] == 'a' and st[2]['k'] in ('use', 'cast') and st[2]['o'][0] == 'k' and isinstance(st[2]['o'][2], int) and not isinstance(st[2]['o'][2], bool) and st[2]['o'][1] == 'u8':
                            s.add(st[2]['o'][2])
                    t = bl['t']
                    if t['k'] == 'sw' and t.get('oty') == 'u8':
                        s |= {int(v) for v, _b in t['ts']}
                return s
            if ints(a) != ints(b):
                viol.append(('C19.R2|AllocatorStateKey|%s' % pat, 'AllocatorStateKey tag bytes differ: %s vs %s' % (sorted(ints(a)), sorted(ints(b)))))
            detail['tag_maps'][pat] = sorted(ints(a))
        except core.AnchorError as e:
            viol.append(('C19.R2|anchor|%s' % pat, str(e)))
    # R3 type names
    tn, to = _type_name_facts(new), _type_name_facts(old)
    common = sorted(set(tn) & set(to))
    base = {'internal', 'internal2', 'new'}
    for k in common:
        ob += 1
        detail['type_names_compared'] += 1
        if tn[k][0] != to[k][0] or (tn[k][1] & base) != (to[k][1] & base):
            viol.append(('C19.R3|type-name|%s' % k, 'type name of %s differs: literals %s vs %s, constructors %s vs %s' % (k, sorted(tn[k][0]), sorted(to[k][0]), sorted(tn[k][1] & base), sorted(to[k][1] & base))))
    ob += 1
    if len(common) < 35:
        viol.append(('C19.R3|floor', 'only %d built-in type_name functions are common to both versions (floor 35)' % len(common)))
    # R4 checksum
    for F, nm in ((new, 'working tree'), (old, 'redb 3.0.0')):
        ob += 1
        try:
            f = F.fn('page_manager::xxh3_checksum')
            cs = f.calls_to('hash128_with_seed')
            okk = len(cs) == 1 and cs[0].t['a'][1][0] == 'k' and cs[0].t['a'][1][2] == 0
            if not okk:
                viol.append(('C19.R4|seed|%s' % nm, 'xxh3_checksum in %s does not call hash128_with_seed(.., 0)' % nm))
        except core.AnchorError as e:
            viol.append(('C19.R4|anchor|%s' % nm, str(e)))
    return ob, viol, detail


def extras(tier, workdir, facts_cache):
    import run
    verif = run.VERIF
    lock_src = os.path.join(run.REPO, 'Cargo.lock')
    comp = os.path.join(workdir, 'compat3')
    shutil.copytree(os.path.join(verif, 'compat3'), comp, ignore=shutil.ignore_patterns('target'))
    shutil.copy(lock_src, os.path.join(comp, 'Cargo.lock'))
    dev = os.environ.get('VERIF_FACTS_DIR')
    if dev and os.path.exists(os.path.join(dev, 'V3.json')):
        fp = os.path.join(dev, 'V3.json')
    else:
        fp = run.extract('D', workdir, manifest_dir=comp, pkg=None, pkg_name='redb', ver='3.0.0', wrapper='RUSTC_WRAPPER', lib=False)
    old = core.Facts(fp)
    assert old.version == '3.0.0', 'expected redb 3.0.0 facts, got %s' % old.version
    new = facts_cache['D']
    ob, viol, detail = cross_version(new, old)
    detail['old_functions'] = len(old.fn_list)
    return [{'name': 'cross-version redb 3.0.0 vs working tree', 'ok': not viol, 'obligations': ob, 'violations': viol, 'detail': detail}]
