from rules import shared as S

DOC = {'explanation': 'C13 structural clauses (see DESIGN.md section 5)', 'decided': [], 'not_decided': []}

WITNESSES = ['C13W1Fail', 'C13W1Twin']


def rules(ctx):
    S.c13_rules(ctx)
    S.staged_root_rules(ctx)
    S.compaction_target_rules(ctx)
    # a crash during compaction is recovered like any other: the commit protocol
    S.c01_r1_commit_protocol(ctx)
    S.c01_r2_grow(ctx)
    S.walker_rules(ctx)
    S.full_range_rules(ctx)
    S.c01_r5_cow(ctx)
    S.c10_rules(ctx)
    S.c02_r4_who_frees(ctx)
    S.c06_r1_freed_merged(ctx)
    S.compaction_progress_rules(ctx)
    S.state_writer_rules(ctx)
    S.mutator_release_rules(ctx)
    S.free_verdict_rules(ctx)
    S.survey_residue_rules(ctx)
    S.leaf_width_rules(ctx)
    S.relocate_tree_rules(ctx)
    S.relocation_content_rules(ctx)
    S.oldest_search_rules(ctx)
    S.round4_residue_rules(ctx)
    S.round5_rules(ctx)
