from rules import shared as S
from rules import late as L

DOC = {'explanation': 'C10 structural clauses (see DESIGN.md section 5)', 'decided': [], 'not_decided': []}


def rules(ctx):
    S.c10_rules(ctx)
    S.c01_r6_checksums_final(ctx)
    S.c01_r5_cow(ctx)
    S.walker_rules(ctx)
    S.full_range_rules(ctx)
    S.retained_checksum_rules(ctx)
    S.c08_r8_flush_keeps_page(ctx)
    S.c12_tree_rules(ctx)
    S.staged_root_rules(ctx)
    # a page released while the restored tree still references it is handed out again: referenced twice
    S.c06_r6_restore(ctx)
    S.state_writer_rules(ctx)
    S.header_codec_rules(ctx)
    S.child_pair_rules(ctx)
    S.root_pair_rules(ctx)
    S.separator_cut_rules(ctx)
    S.leaf_width_rules(ctx)
    S.after_bound_rules(ctx)
    S.tree_root_update_rules(ctx)
    S.round5_rules(ctx)
    S.builder_fill_rules(ctx)
    L.inplace_edit_rules(ctx)
    L.get_mut_cow_rules(ctx)
    L.split_root_and_drop_rules(ctx)
