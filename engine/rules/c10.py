from rules import shared as S

DOC = {'explanation': 'C10 structural clauses (see DESIGN.md section 5)', 'decided': [], 'not_decided': []}


def rules(ctx):
    S.c10_rules(ctx)
    S.c01_r6_checksums_final(ctx)
    S.c01_r5_cow(ctx)
    S.walker_rules(ctx)
    S.retained_checksum_rules(ctx)
    S.c08_r8_flush_keeps_page(ctx)
    S.c12_tree_rules(ctx)
