from rules import shared as S
from rules import late as L

DOC = {
    'explanation': 'C08 structural clauses: one door to the backend, check-then-latch in every operation, no dropped storage error (discard allow-list), writes refused after a failure, failed commit discards the allocator, no clean-shutdown record after a failure, drop skips rollback I/O, failed write-back keeps the page, recovery verification covers every table and page (C12 rules shared)',
    'decided': [],
    'not_decided': ['state after reopen for every fault index (needs fault enumeration)'],
}


def rules(ctx):
    S.c08_r1_one_door(ctx)
    S.c08_r2_check_then_latch(ctx)
    S.c08_r3_no_dropped_errors(ctx)
    S.c08_r4_refused_after_failure(ctx)
    S.c03_r2_slot_before_roots(ctx)
    S.c01_r7_latch(ctx)
    S.c01_r9_clean_close(ctx)
    S.c05_r6_drop(ctx)
    S.c08_r8_flush_keeps_page(ctx)
    S.c01_r1_commit_protocol(ctx)
    S.c01_r2_grow(ctx)
    S.c01_r8_open_recovery(ctx)
    # recovery after a torn 1-phase commit rests on complete checksum verification
    S.c12_db_rules(ctx)
    S.c12_tree_rules(ctx)
    S.cache_reset_rules(ctx)
    S.extract_state_rules(ctx)
    S.flush_take_rules(ctx)
    S.full_range_rules(ctx)
    L.verify_cycle_guard_rules(ctx)
    L.depth_bound_rules(ctx)
    L.retain_poison_report_rules(ctx)
