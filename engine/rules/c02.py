from rules import shared as S
from rules import late as L

DOC = {
    'explanation': 'C02 structural clauses: atomic registration, register-before-root, free horizon flow, who-may-free tables, cache coherence on free, guard ownership of page-holding types',
    'decided': [],
    'not_decided': ['horizon arithmetic for every history', 'cache budget races'],
}

WITNESSES = ['C02W1Fail', 'C02W1Twin']


def rules(ctx):
    S.c02_r1_register_atomic(ctx)
    S.c02_r2_register_before_root(ctx)
    S.c02_r3_free_horizon(ctx)
    S.c02_r4_who_frees(ctx)
    S.c02_r5_free_leaves_caches(ctx)
    S.c02_r6_guard_ownership(ctx)
    S.c02_r7_pending_pins(ctx)
    S.c01_r5_cow(ctx)
    S.c02_r8_clean_reads(ctx)
    S.c01_r1_commit_protocol(ctx)
    S.c01_r2_grow(ctx)
    S.c01_r4_non_durable(ctx)
    S.refcount_rules(ctx)
    S.c13_rules(ctx)
    S.c06_r1_freed_merged(ctx)
    S.c07_rules(ctx)
    S.loop_completeness_rules(ctx)
    S.cache_reset_rules(ctx)
    S.free_verdict_rules(ctx)
    S.key_compare_rules(ctx)
    S.restore_commit_rules(ctx)
    S.flush_take_rules(ctx)
    S.oldest_search_rules(ctx)
    S.snapshot_atomic_rules(ctx)
    S.round4_residue_rules(ctx)
    S.round5_rules(ctx)
    L.get_mut_cow_rules(ctx)
