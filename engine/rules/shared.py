"""Rule instances shared by several properties (DESIGN.md section 5). Every function takes the
Ctx of the property that invokes it, so obligations and violations are attributed to that
property. Rule ids keep the id of the property that defines them (e.g. C01.R5 used by C02)."""
from rulekit import Guard, cpoint, Point
import core

TM = 'TransactionalMemory'
PCF = 'PagedCachedFile'
CB = 'CheckedBackend'
PA = 'PageAllocator'
WT = 'WriteTransaction'
TT = 'TransactionTracker'


def ok(call):
    return Guard(call=call, vals={'Ok', 'Some'})


def err(call):
    return Guard(call=call, vals={'Err', 'None'})


def true_of(call):
    return Guard(call=call, vals={'true'})


def false_of(call):
    return Guard(call=call, vals={'false'})


# ------------------------------------------------------------------------------------ C01.R1
def c01_r1_commit_protocol(ctx):
    ctx.set_rule('C01.R1', 'TM::commit: secondary slot -> header -> [2PC flush] -> primary flip -> header -> flush -> shrink -> publish')
    f = ctx.fn(TM + '::commit')
    if f is None:
        return
    wss = ctx.sites(f, 'DatabaseHeader::write_secondary_slot', exact=1)
    wh = ctx.sites(f, TM + '::write_header', exact=2)
    swap = ctx.sites(f, 'DatabaseHeader::swap_primary_slot', exact=1)
    fl = ctx.sites(f, PCF + '::flush', exact=2)
    rs = ctx.sites(f, PCF + '::resize', exact=1)
    if not (len(wss) == 1 and len(wh) == 2 and len(swap) == 1 and len(fl) == 2 and len(rs) == 1):
        return
    # identify first/second header write: the first is the one not cut off by swap
    r = core.reach(f, cut_blocks={swap[0].bb})
    wh1 = [p for p in wh if p.bb in r['term']]
    wh2 = [p for p in wh if p.bb not in r['term']]
    ctx.check(len(wh1) == 1 and len(wh2) == 1, 'shape|write_header-around-swap', 'exactly one write_header before and one after swap_primary_slot', f, swap[0].line)
    if not (len(wh1) == 1 and len(wh2) == 1):
        return
    fl_final = [p for p in fl if p.bb not in r['term']]
    fl_2pc = [p for p in fl if p.bb in r['term']]
    ctx.check(len(fl_final) == 1 and len(fl_2pc) == 1, 'shape|flush-around-swap', 'one flush before (2PC) and one after swap_primary_slot', f, swap[0].line)
    if not (len(fl_final) == 1 and len(fl_2pc) == 1):
        return
    # (a) order chain
    ctx.order(f, wss, wh1, 'write_secondary_slot before first write_header')
    ctx.order(f, wh1, swap, 'first write_header before swap_primary_slot')
    ctx.order(f, swap, wh2, 'swap_primary_slot before second write_header')
    ctx.order(f, wh2, fl_final, 'second write_header before final flush')
    # the first header write must have succeeded before the flip
    ctx.guarded(f, swap, [ok(TM + '::write_header')], 'swap_primary_slot only after write_header returned Ok')
    # (b) every success path from the flip passes the second header write and the final flush (Ok)
    ctx.must_pass(f, wh2, start=swap[0], what='every success path after swap_primary_slot writes the header')
    ctx.must_pass(f, fl_final, start=wh2[0], what='every success path after the second write_header passes PagedCachedFile::flush')
    # (c) 2PC: with two_phase == true, swap is unreachable from the first header write without flush
    e_false = core.guard_edges(f, [Guard(place='two_phase', vals={'false'})])
    ctx.check(bool(e_false), 'guard-missing|two_phase', 'a test of parameter two_phase exists in TM::commit', f, f.line)
    cb, _cp = ctx._cuts(f, fl_2pc)
    r2 = core.reach(f, start=(wh1[0].bb, wh1[0].idx), cut_blocks=cb, cut_edges=e_false)
    hit = swap[0].bb in r2['term']
    ctx._ob(not hit, ctx.sample('guard', f, swap[0].line, 'two_phase=true: swap_primary_slot unreachable from first write_header without flush'))
    if hit:
        ctx.violate('2pc-flush|%s' % f.path, 'two-phase commit: swap_primary_slot reachable from the first write_header without passing PagedCachedFile::flush when two_phase is true', f, swap[0].line,
                    core.path_lines(f, core.find_path(f, swap[0].bb, cut_blocks=cb, cut_edges=e_false, start=(wh1[0].bb, wh1[0].idx))))
    # the 2PC flush must have succeeded
    r3 = core.reach(f, start=(fl_2pc[0].bb, fl_2pc[0].idx), cut_edges=core.guard_edges(f, [ok(PCF + '::flush')]))
    ctx.check(swap[0].bb not in r3['term'], '2pc-flush-ok|%s' % f.path, 'after the 2PC flush, swap_primary_slot only on its Ok edge', f, fl_2pc[0].line)
    # (d) shrink only after the final flush succeeded
    r4 = core.reach(f, cut_blocks={fl_final[0].bb})
    ctx.check(rs[0].bb not in r4['term'], 'order|%s|final-flush|resize' % f.path, 'file resize (shrink) only after the final flush', f, rs[0].line)
    r5 = core.reach(f, start=(fl_final[0].bb, fl_final[0].idx), cut_edges=core.guard_edges(f, [ok(PCF + '::flush')]))
    ctx.check(rs[0].bb not in r5['term'], 'after-success|%s|final-flush|resize' % f.path, 'file resize (shrink) only on the Ok edge of the final flush', f, rs[0].line)
    # (e) two_phase_commit store between the two header writes
    st2 = ctx.stores(f, 'two_phase_commit', owner='DatabaseHeader')
    ctx.order(f, wh1, st2, 'header.two_phase_commit stored after the first write_header')
    for s in st2:
        ctx.order(f, [s], wh2, 'header.two_phase_commit stored before the second write_header')
        ok_flow = False
        rv = s.fn.blocks[s.bb]['s'][s.idx][2]
        if rv['k'] == 'use':
            ok_flow = core.flows_from_arg(f, rv['o'], 'two_phase')
        ctx.check(ok_flow, 'flow|%s|two_phase_commit' % f.path, 'header.two_phase_commit is assigned from parameter two_phase', f, s.line)
    # (f) in-memory publication after the final flush succeeded, under the state lock
    pub = ctx.stores(f, 'header', owner='InMemoryState')
    rfs = ctx.stores(f, 'read_from_secondary', owner='InMemoryState', value=False)
    for p in pub + rfs:
        ctx.check(not core.point_reached(f, r4, p.bb, p.idx), 'order|%s|final-flush|%s' % (f.path, p.desc), '%s only after the final flush' % p.desc, f, p.line)
        ctx.check(not core.point_reached(f, r5, p.bb, p.idx), 'after-success|%s|final-flush|%s' % (f.path, p.desc), '%s only on the Ok edge of the final flush' % p.desc, f, p.line)
    held_at_stores(ctx, f, pub + rfs, 'self.state')
    # (g) id monotonicity assert cuts write_secondary_slot (assert!, not debug_assert!)
    ctx.guarded_cmp(f, wss, [Guard(call='DatabaseHeader::primary_slot', cmp=True)], 'write_secondary_slot control-dependent on the transaction-id comparison with the primary slot')
    # entry: refuse after an I/O failure
    ctx.guarded(f, wss + wh, [ok(PCF + '::check_io_errors')], 'header writes only after check_io_errors returned Ok')
    # unpersisted.clear only after final flush Ok
    clr = ctx.sites(f, 'UnpersistedState::clear', exact=1)
    for p in clr:
        ctx.check(p.bb not in r5['term'], 'after-success|%s|final-flush|unpersisted.clear' % f.path, 'UnpersistedState::clear only on the Ok edge of the final flush', f, p.line)


def held_at_stores(ctx, f, points, lock_desc):
    """a store through a MutexGuard deref: the guard local must be live at the block."""
    for p in points:
        classes = core.held_classes_at(p.fn, p.bb, p.idx)
        # statement-level: guard must be live at the terminator of the block or acquired earlier in block
        okk = any(c == lock_desc or c.endswith(lock_desc) for c in classes)
        ctx._ob(okk, ctx.sample('held', p.fn, p.line, '%s under lock %s' % (p.desc, lock_desc)))
        if not okk:
            ctx.violate('held|%s|%s|%s' % (p.fn.path, p.desc, lock_desc), 'HELD-LOCK violated: %s without a live guard of %s (live: %s)' % (p.desc, lock_desc, sorted(classes)), p.fn, p.line)


# ------------------------------------------------------------------------------------ C01.R2
def c01_r2_grow(ctx):
    ctx.set_rule('C01.R2', 'TM::grow: resize -> sync_file -> layout published')
    f = ctx.fn(TM + '::grow')
    if f is None:
        return
    rs = ctx.sites(f, PCF + '::resize', exact=1)
    sy = ctx.sites(f, PCF + '::sync_file', exact=1)
    sl = ctx.sites(f, 'DatabaseHeader::set_layout', exact=1)
    rz = ctx.sites(f, 'Allocators::resize_to', exact=1)
    ctx.order(f, rs, sy, 'file resize before sync_file')
    ctx.order(f, sy, sl + rz, 'sync_file before the new layout is published in memory')
    ctx.guarded(f, sy, [ok(PCF + '::resize')], 'sync_file only after resize returned Ok')
    ctx.guarded(f, sl + rz, [ok(PCF + '::sync_file')], 'layout published only after sync_file returned Ok')
    # the length passed to resize is the new layout's
    for p in rs:
        ctx.flows(f, p, 1, from_call='DatabaseLayout::calculate', what='resize length derives from the newly calculated layout')
    for p in sl:
        ctx.flows(f, p, 1, from_call='DatabaseLayout::calculate', what='published layout is the newly calculated layout')
    # PCF::flush = flush_write_buffer then sync_data
    ctx.set_rule('C01.R2b', 'PCF::flush: write buffer drained before sync_data; sync_file syncs')
    g = ctx.fn(PCF + '::flush')
    if g is not None:
        a = ctx.sites(g, PCF + '::flush_write_buffer', exact=1)
        b = ctx.sites(g, CB + '::sync_data', exact=1)
        ctx.order(g, a, b)
        ctx.guarded(g, b, [ok(PCF + '::flush_write_buffer')], 'sync_data only after flush_write_buffer returned Ok')
        ctx.must_pass(g, b, what='every success path of flush passes sync_data')
    g = ctx.fn(PCF + '::sync_file')
    if g is not None:
        b = ctx.sites(g, CB + '::sync_data', exact=1)
        ctx.must_pass(g, b, what='every success path of sync_file passes sync_data')
    g = ctx.fn(PCF + '::flush_write_buffer')
    if g is not None:
        w = ctx.sites(g, CB + '::write', exact=1)
        clr = ctx.sites(g, 'LRUWriteCache::clear', exact=1)
        st = ctx.atomic_sites(g, 'store', 'committed_pages_buffered', exact=1, value=False)
        ctx.after_success_from(g, w, CB + '::write', clr + st, 'a failed page write returns before the stripe is cleared / the flag reset')
        # the flag is reset only after the loop over all stripes: no lock() reachable after it
        lk = ctx.sites(g, 'Mutex::lock', exact=1)
        if st and lk:
            r = core.reach(g, start=(st[0].bb, st[0].idx))
            ctx.check(lk[0].bb not in r['term'], 'order|%s|flag-after-drain' % g.path, 'committed_pages_buffered is cleared only after every stripe was drained (no stripe lock after it)', g, st[0].line)
    g = ctx.fn(PCF + '::resize')
    if g is not None:
        sl_ = ctx.sites(g, CB + '::set_len', exact=1)
        inv = ctx.sites(g, PCF + '::invalidate_read_cache_above', exact=1)
        ctx.must_pass(g, sl_, what='every success path of resize passes set_len')
        ctx.flows(g, sl_[0] if sl_ else None, 1, from_arg='len')


# ------------------------------------------------------------------------------------ C01.R3
def c01_r3_owners(ctx):
    ctx.set_rule('C01.R3', 'who writes the header / syncs / resizes / commits (frozen tables)')
    ctx.callers_eq(TM + '::write_header', {TM + '::commit', TM + '::begin_writable', TM + '::clear_recovery_required', TM + '::flush_shutdown_header'})
    ctx.callers_eq(PCF + '::flush', {TM + '::commit', TM + '::begin_writable', TM + '::clear_recovery_required', TM + '::flush_shutdown_header', TM + '::new', TM + '::clear_cache_and_reload'})
    ctx.callers_eq(PCF + '::sync_file', {TM + '::grow', TM + '::clear_cache_and_reload'})
    ctx.callers_eq(PCF + '::resize', {TM + '::commit', TM + '::grow', TM + '::new'})
    ctx.callers_eq(PCF + '::write', {TM + '::allocate_helper', TM + '::clear_cache_and_reload', TM + '::get_page_mut', TM + '::new', TM + '::write_header'})
    ctx.callers_eq(TM + '::commit', {WT + '::durable_commit', 'Database::new', 'Database::check_integrity_inner'})
    ctx.callers_eq(TM + '::non_durable_commit', {WT + '::non_durable_commit', WT + '::process_data_freed_pages_after_commit'})
    ctx.callers_eq(TM + '::grow', {TM + '::allocate_helper'})
    ctx.callers_eq(TM + '::try_shrink', {TM + '::commit'})
    ctx.callers_eq('DatabaseHeader::set_layout', {TM + '::grow', TM + '::try_shrink', 'UnrepairedDatabaseHeader::finalize'})
    # header writes (offset 0 of the file): PCF::write with constant offset 0
    zero = set()
    for path, sites in ctx.facts.callers_of(PCF + '::write').items():
        for c in sites:
            a = c.t['a'][1]
            if a[0] == 'k' and a[2] == 0:
                zero.add(path)
    exp = {TM + '::write_header', TM + '::new', TM + '::clear_cache_and_reload'}
    for p in sorted(zero):
        okk = any(core.name_matches(e, core.alt_names(p)) for e in exp)
        ctx.check(okk, 'new-header-writer|%s' % p, 'function `%s` writes file offset 0 (the database header); confirmed writers: %s' % (p, sorted(exp)))
    ctx.check(len(zero) >= 3, 'floor|header-writers', 'at least the 3 confirmed header writers are found (found %d)' % len(zero))


# ------------------------------------------------------------------------------------ C01.R4
def c01_r4_non_durable(ctx):
    ctx.set_rule('C01.R4', 'TM::non_durable_commit touches no storage; slot write and read_from_secondary under one state guard')
    f = ctx.fn(TM + '::non_durable_commit')
    if f is None:
        return
    ctx.no_reach([TM + '::non_durable_commit'], [CB + '::write', CB + '::write_best_effort', CB + '::set_len', CB + '::sync_data', 'StorageBackend::write', 'StorageBackend::set_len', 'StorageBackend::sync_data', PCF + '::flush', PCF + '::write'])
    wb = ctx.sites(f, PCF + '::write_barrier', exact=1)
    wss = ctx.sites(f, 'DatabaseHeader::write_secondary_slot', exact=1)
    rfs = ctx.stores(f, 'read_from_secondary', owner='InMemoryState', value=True)
    ctx.order(f, wb, wss, 'write_barrier before the secondary slot is rewritten')
    ctx.order(f, wss, rfs, 'secondary slot written before read_from_secondary = true')
    ctx.held(f, wss, 'self.state')
    held_at_stores(ctx, f, rfs, 'self.state')
    # one guard: no lock() of state between the two
    locks = [p for p in ctx.sites(f, 'Mutex::lock', floor=2) if 'state' in core.lock_class_of_call(p.fn, p.bb)]
    ctx.check(len(locks) == 1, 'one-guard|%s' % f.path, 'exactly one acquisition of self.state in non_durable_commit (slot and flag change together)', f, f.line)
    ctx.guarded(f, wss, [ok(PCF + '::check_io_errors')], 'secondary slot only after check_io_errors returned Ok')
    ctx.must_pass(f, rfs, start=wss[0] if wss else None, what='every success path after write_secondary_slot sets read_from_secondary')
    ext = ctx.sites(f, 'UnpersistedState::extend', exact=1)
    ctx.order(f, ext, wss, 'newly allocated pages recorded as unpersisted before the commit is published')
    # write_barrier sets the flag behind write_buffer_bytes > 0
    g = ctx.fn(PCF + '::write_barrier')
    if g is not None:
        st = ctx.atomic_sites(g, 'store', 'committed_pages_buffered', exact=1, value=True)
        ctx.guarded_cmp(g, st, [Guard(place='self.write_buffer_bytes', cmp=True)], 'flag set only when the write buffer is non-empty')
        ctx.no_reach([PCF + '::write_barrier'], [CB + '::write', CB + '::sync_data'])


# ------------------------------------------------------------------------------------ C01.R6
def c01_r6_checksums_final(ctx):
    ctx.set_rule('C01.R6', 'roots handed to the commit slot are finalized roots')
    f = ctx.fn(WT + '::durable_commit')
    if f is not None:
        cm = ctx.sites(f, TM + '::commit', exact=1)
        fin = ctx.sites(f, 'TableTreeMut::finalize_dirty_checksums', exact=1)
        ctx.order(f, fin, cm, 'system tree checksums finalized before TM::commit')
        ctx.guarded(f, cm, [ok('TableTreeMut::finalize_dirty_checksums')], 'TM::commit only after finalize_dirty_checksums returned Ok')
        for p in cm:
            ctx.flows(f, p, 2, from_call='TableTreeMut::finalize_dirty_checksums', what='system_root argument of TM::commit derives from finalize_dirty_checksums')
            ctx.flows(f, p, 1, from_arg='user_root', what='data root argument of TM::commit is the user_root parameter')
            ctx.flows(f, p, 4, from_arg='self', what='two_phase argument comes from the transaction')
    f = ctx.fn(WT + '::commit_inner_helper')
    if f is not None:
        fc = ctx.sites(f, 'TableTreeMut::flush_and_close', exact=1)
        dc = ctx.sites(f, WT + '::durable_commit', exact=1)
        nd = ctx.sites(f, WT + '::non_durable_commit', exact=1)
        ctx.guarded(f, dc + nd, [ok('TableTreeMut::flush_and_close')], 'commit only after flush_and_close returned Ok')
        for p in dc + nd:
            ctx.flows(f, p, 1, from_call='TableTreeMut::flush_and_close', what='user_root derives from flush_and_close')
    f = ctx.fn(WT + '::non_durable_commit')
    if f is not None:
        cm = ctx.sites(f, TM + '::non_durable_commit', exact=1)
        ctx.guarded(f, cm, [ok('TableTreeMut::finalize_dirty_checksums')], 'TM::non_durable_commit only after finalize_dirty_checksums returned Ok')
        for p in cm:
            ctx.flows(f, p, 2, from_call='TableTreeMut::finalize_dirty_checksums')
            ctx.flows(f, p, 1, from_arg='user_root')
    f = ctx.fn(WT + '::process_data_freed_pages_after_commit')
    if f is not None:
        cm = ctx.sites(f, TM + '::non_durable_commit', exact=1)
        ctx.guarded(f, cm, [ok('TableTreeMut::finalize_dirty_checksums')], 'epilogue publishes only after finalize_dirty_checksums returned Ok')
        for p in cm:
            ctx.flows(f, p, 2, from_call='TableTreeMut::finalize_dirty_checksums')
            ctx.flows(f, p, 1, from_arg='user_root')


# ------------------------------------------------------------------------------------ C01.R7
def c01_r7_latch(ctx):
    ctx.set_rule('C01.R7', 'irreversibility latch: allocator state discarded unless the commit completed')
    f = ctx.fn(WT + '::commit_inner')
    if f is not None:
        arm = ctx.sites(f, 'AllocatorStateLatch::arm', exact=1)
        h = ctx.sites(f, WT + '::commit_inner_helper', exact=1)
        dis = ctx.sites(f, 'AllocatorStateLatch::disarm', exact=1)
        ctx.order(f, arm, h, 'latch armed before commit_inner_helper')
        ctx.guarded(f, dis, [ok(WT + '::commit_inner_helper')], 'disarm only if commit_inner_helper returned Ok')
    g = ctx.fn('<AllocatorStateLatch as Drop>::drop')
    if g is not None:
        inv = ctx.sites(g, TM + '::invalidate_allocator_state', exact=1)
        ctx.guarded(g, inv, [Guard(place='self.mem', vals={'Some'})], 'invalidate on the armed (Some) edge')
        # every path with Some passes invalidate
        e_none = core.guard_edges(g, [Guard(place='self.mem', vals={'None'})])
        ctx.must_pass(g, inv, exits='any', extra_cut_edges=e_none, what='armed latch always invalidates the allocator state on drop')
    d = ctx.fn('AllocatorStateLatch::disarm')
    if d is not None:
        st = ctx.stores(d, 'mem', owner='AllocatorStateLatch')
    a = ctx.fn('AllocatorStateLatch::arm')
    if a is not None:
        # arm stores Some(mem)
        aggs = [1 for b in a.blocks for st_ in b['s'] if st_[0] == 'a' and st_[2]['k'] == 'agg' and st_[2]['a'].endswith('Option') and st_[2]['v'] == 'Some']
        ctx.check(len(aggs) >= 1, 'shape|arm-some', 'AllocatorStateLatch::arm stores Some(mem)', a, a.line)
    ctx.callers_eq('AllocatorStateLatch::arm', {WT + '::commit_inner'})
    ctx.callers_eq('AllocatorStateLatch::disarm', {WT + '::commit_inner'})
    ctx.callers_eq(PA + '::adopt_unpersisted', {WT + '::commit_inner_helper'})
    f = ctx.fn(WT + '::commit_inner_helper')
    if f is not None:
        ad = ctx.sites(f, PA + '::adopt_unpersisted', exact=1)
        ctx.guarded(f, ad, [ok('TableTreeMut::flush_and_close')], 'adopt_unpersisted only after flush_and_close returned Ok')
        ctx.guarded_cmp(f, ad, [Guard(place='self.durability', cmp=True)], 'adopt_unpersisted control-dependent on the durability test')
    ctx.callers_eq(TM + '::invalidate_allocator_state', {'<AllocatorStateLatch as Drop>::drop', 'Database::check_integrity'})


# ------------------------------------------------------------------------------------ C01.R8
def c01_r8_open_recovery(ctx):
    ctx.set_rule('C01.R8', 'open/recovery ordering')
    f = ctx.fn(TM + '::new')
    if f is not None:
        tb = ctx.sites(f, 'DatabaseHeader::to_bytes', floor=3)
        nomagic = [p for p in tb if p.call.t['a'][1][0] == 'k' and p.call.t['a'][1][2] is False]
        magic = [p for p in tb if p.call.t['a'][1][0] == 'k' and p.call.t['a'][1][2] is True]
        ctx.check(len(nomagic) == 1 and len(magic) >= 2, 'shape|to_bytes', 'one header serialisation without magic and >=2 with magic in TM::new', f, f.line)
        if len(nomagic) == 1:
            edges = core.guard_edges(f, [ok(PCF + '::flush')])
            r = core.reach(f, start=(nomagic[0].bb, nomagic[0].idx), cut_edges=edges)
            for m in magic:
                hit = m.bb in r['term']
                ctx._ob(not hit, ctx.sample('order', f, m.line, 'magic header only after the magic-less header was flushed (Ok)'))
                if hit:
                    ctx.violate('order|%s|flush-before-magic' % f.path, 'header with magic number serialised without a successful flush of the magic-less header', f, m.line)
            # and every success path from it passes flush
            ctx.must_pass(f, ctx.sites(f, PCF + '::flush', floor=3), start=nomagic[0], what='every success path after initialising the header passes flush')
        # PCF::new precedes every fallible storage op: C20.R3 checks that
    f = ctx.fn('Database::new')
    if f is not None:
        bw = ctx.sites(f, TM + '::begin_writable', exact=1)
        ctx.guarded(f, bw, [ok(TM + '::load_allocator_state'), ok(TM + '::commit')], 'begin_writable only after load_allocator_state or the repair commit returned Ok')
        cm = ctx.sites(f, TM + '::commit', exact=1)
        ctx.guarded(f, cm, [ok('Database::do_repair')], 'repair commit only after do_repair returned Ok')
        la = ctx.sites(f, TM + '::load_allocator_state', exact=1)
        ctx.guarded(f, la, [Guard(call='Database::get_allocator_state_table', vals={'Some'})], 'load_allocator_state only on the Some edge of get_allocator_state_table')
        for p in cm:
            ctx.flows(f, p, 1, from_call='Database::do_repair')
            ctx.flows(f, p, 2, from_call='Database::do_repair')
            ctx.flows(f, p, 3, from_call=TM + '::get_last_committed_transaction_id')
            ctx.const_arg(f, p, 4, True, 'repair commit uses two-phase commit')
    f = ctx.fn('Database::do_repair')
    if f is not None:
        crr = ctx.sites(f, TM + '::clear_recovery_required', exact=1)
        ctx.guarded(f, crr, [Guard(call='Database::primary_verifies', vals={'true'})], 'clear_recovery_required only after a primary slot verified')
        rb = ctx.sites(f, 'Database::rebuild_allocator_state', exact=1)
        ctx.guarded(f, rb, [Guard(call='Database::primary_verifies', vals={'true'})], 'allocator rebuilt only from a verified primary')
        ctx.guarded(f, crr, [ok('Database::rebuild_allocator_state')], 'clear_recovery_required only after the rebuild returned Ok')
        rpc = ctx.sites(f, TM + '::repair_primary_corrupted', exact=1)
        ctx.guarded(f, rpc, [Guard(call='Database::primary_verifies', vals={'false'})], 'slot swap only when the primary failed verification')
        ctx.guarded(f, rpc, [Guard(call=TM + '::used_two_phase_commit', vals={'false'})], 'no fallback to the secondary after a two-phase commit')
    f = ctx.fn(TM + '::begin_writable')
    if f is not None:
        st = ctx.stores(f, 'recovery_required', owner='DatabaseHeader', value=True)
        wh = ctx.sites(f, TM + '::write_header', exact=1)
        fl = ctx.sites(f, PCF + '::flush', exact=1)
        ctx.order(f, st, wh)
        ctx.order(f, wh, fl)
        ctx.must_pass(f, fl, what='begin_writable flushes the recovery_required header on every success path')
    f = ctx.fn(TM + '::clear_recovery_required')
    if f is not None:
        st = ctx.stores(f, 'recovery_required', owner='DatabaseHeader', value=False)
        wh = ctx.sites(f, TM + '::write_header', exact=1)
        fl = ctx.sites(f, PCF + '::flush', exact=1)
        ctx.order(f, st, wh)
        ctx.order(f, wh, fl)
        ctx.must_pass(f, fl, what='clear_recovery_required flushes on every success path')
    ctx.callers_eq(TM + '::clear_recovery_required', {'Database::do_repair'})
    ctx.callers_eq(TM + '::begin_writable', {'Database::new', 'Database::check_integrity_inner'})
    ctx.callers_eq(TM + '::repair_primary_corrupted', {'Database::do_repair'})


# ------------------------------------------------------------------------------------ C01.R9
def c01_r9_clean_close(ctx):
    ctx.set_rule('C01.R9', 'clean close only records a clean shutdown for a consistent, failure-free state')
    f = ctx.fn(TM + '::flush_shutdown_header')
    if f is not None:
        st = ctx.stores(f, 'recovery_required', owner='DatabaseHeader', value=False)
        wh = ctx.sites(f, TM + '::write_header', exact=1)
        tg = st + wh
        ctx.guarded(f, tg, [ok(PCF + '::check_io_errors')], 'shutdown header only if no I/O failure is latched')
        ctx.guarded(f, tg, [false_of('panicking')], 'shutdown header not while panicking')
        ctx.guarded(f, tg, [Guard(place='allocators', vals={'Some'})], 'shutdown header only with an allocator state')
        ctx.guarded(f, tg, [false_of(TM + '::needs_repair')], 'shutdown header not when repair is needed')
        ctx.guarded(f, tg, [ok(PCF + '::flush')], 'shutdown header only after a successful flush of the data')
        fl = ctx.sites(f, PCF + '::flush', exact=2)
        ctx.must_pass(f, fl, start=wh[0] if wh else None, what='the shutdown header is flushed')
    ctx.callers_eq(TM + '::flush_shutdown_header', {TM + '::close'})
    f = ctx.fn('close_database')
    if f is not None:
        en = ctx.sites(f, 'ensure_allocator_state_table_and_trim', exact=1)
        ctx.guarded(f, en, [false_of('panicking')], 'no final quick-repair commit while panicking')
        ctx.guarded(f, en, [false_of(TM + '::needs_repair')], 'no allocator snapshot of a state that needs repair')
        cl = ctx.sites(f, TM + '::close', exact=1)
        ctx.must_pass(f, cl, exits='any', what='close_database always closes the memory')
    f = ctx.fn('ensure_allocator_state_table_and_trim')
    if f is not None:
        qr = ctx.sites(f, WT + '::set_quick_repair', exact=1)
        cm = ctx.sites(f, WT + '::commit', exact=1)
        for p in qr:
            ctx.const_arg(f, p, 1, True)
        ctx.order(f, qr, cm, 'quick repair enabled before the final commit')
        ctx.must_pass(f, cm, what='the closing transaction is committed')
    ctx.callers_eq('ensure_allocator_state_table_and_trim', {'close_database'})
    ctx.callers_eq('close_database', {'<Database as Drop>::drop', '<TransactionGuard as Drop>::drop'})
    # quick repair implies two-phase commit
    f = ctx.fn(WT + '::commit_inner_helper')
    if f is not None:
        st = ctx.stores(f, 'two_phase_commit', owner='WriteTransaction', value=True)
        ctx.guarded(f, st, [Guard(place='self.quick_repair', vals={'true'})], 'quick_repair forces two_phase_commit')
        e_false = core.guard_edges(f, [Guard(place='self.quick_repair', vals={'false'})])
        fc = ctx.sites(f, 'TableTreeMut::flush_and_close', exact=1)
        if st and fc:
            r = core.reach(f, cut_edges=e_false, cut_points={(st[0].bb, st[0].idx)})
            ctx.check(fc[0].bb not in r['term'], 'must-pass|%s|quick-repair-2pc' % f.path, 'with quick_repair set, two_phase_commit = true is stored before anything else happens', f, st[0].line)
