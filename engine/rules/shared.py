"""Rule instances shared by several properties (DESIGN.md section 5). Every function takes the
Ctx of the property that invokes it, so obligations and violations are attributed to that
property. Rule ids keep the id of the property that defines them (e.g. C01.R5 used by C02)."""
from rulekit import Guard, cpoint, Point
import re
import core

TM = 'TransactionalMemory'
PCF = 'PagedCachedFile'
CB = 'CheckedBackend'
PA = 'PageAllocator'
WT = 'WriteTransaction'
TT = 'TransactionTracker'


def ok(call):
    return Guard(call=call, vals={'Ok', 'Some'})


def err(call):
    return Guard(call=call, vals={'Err', 'None'})


def true_of(call):
    return Guard(call=call, vals={'true'})


def false_of(call):
    return Guard(call=call, vals={'false'})


# ------------------------------------------------------------------------------------ C01.R1
def c01_r1_commit_protocol(ctx):
    ctx.set_rule('C01.R1', 'TM::commit: secondary slot -> header -> [2PC flush] -> primary flip -> header -> flush -> shrink -> publish')
    f = ctx.fn(TM + '::commit')
    if f is None:
        return
    wss = ctx.sites(f, 'DatabaseHeader::write_secondary_slot', exact=1)
    wh = ctx.sites(f, TM + '::write_header', exact=2)
    swap = ctx.sites(f, 'DatabaseHeader::swap_primary_slot', exact=1)
    fl = ctx.sites(f, PCF + '::flush', exact=2)
    rs = ctx.sites(f, PCF + '::resize', exact=1)
    if not (len(wss) == 1 and len(wh) == 2 and len(swap) == 1 and len(fl) == 2 and len(rs) == 1):
        return
    # identify first/second header write: the first is the one not cut off by swap
    r = core.reach(f, cut_blocks={swap[0].bb})
    wh1 = [p for p in wh if p.bb in r['term']]
    wh2 = [p for p in wh if p.bb not in r['term']]
    ctx.check(len(wh1) == 1 and len(wh2) == 1, 'shape|write_header-around-swap', 'exactly one write_header before and one after swap_primary_slot', f, swap[0].line)
    if not (len(wh1) == 1 and len(wh2) == 1):
        return
    fl_final = [p for p in fl if p.bb not in r['term']]
    fl_2pc = [p for p in fl if p.bb in r['term']]
    ctx.check(len(fl_final) == 1 and len(fl_2pc) == 1, 'shape|flush-around-swap', 'one flush before (2PC) and one after swap_primary_slot', f, swap[0].line)
    if not (len(fl_final) == 1 and len(fl_2pc) == 1):
        return
    # (a) order chain
    ctx.order(f, wss, wh1, 'write_secondary_slot before first write_header')
    ctx.order(f, wh1, swap, 'first write_header before swap_primary_slot')
    ctx.order(f, swap, wh2, 'swap_primary_slot before second write_header')
    ctx.order(f, wh2, fl_final, 'second write_header before final flush')
    # the first header write must have succeeded before the flip
    ctx.guarded(f, swap, [ok(TM + '::write_header')], 'swap_primary_slot only after write_header returned Ok')
    # (b) every success path from the flip passes the second header write and the final flush (Ok)
    ctx.must_pass(f, wh2, start=swap[0], what='every success path after swap_primary_slot writes the header')
    ctx.must_pass(f, fl_final, start=wh2[0], what='every success path after the second write_header passes PagedCachedFile::flush')
    # (c) 2PC: with two_phase == true, swap is unreachable from the first header write without flush
    e_false = core.guard_edges(f, [Guard(place='two_phase', vals={'false'})])
    ctx.check(bool(e_false), 'guard-missing|two_phase', 'a test of parameter two_phase exists in TM::commit', f, f.line)
    cb, _cp = ctx._cuts(f, fl_2pc)
    r2 = core.reach(f, start=(wh1[0].bb, wh1[0].idx), cut_blocks=cb, cut_edges=e_false)
    hit = swap[0].bb in r2['term']
    ctx._ob(not hit, ctx.sample('guard', f, swap[0].line, 'two_phase=true: swap_primary_slot unreachable from first write_header without flush'))
    if hit:
        ctx.violate('2pc-flush|%s' % f.path, 'two-phase commit: swap_primary_slot reachable from the first write_header without passing PagedCachedFile::flush when two_phase is true', f, swap[0].line,
                    core.path_lines(f, core.find_path(f, swap[0].bb, cut_blocks=cb, cut_edges=e_false, start=(wh1[0].bb, wh1[0].idx))))
    # the 2PC flush must have succeeded
    r3 = core.reach(f, start=(fl_2pc[0].bb, fl_2pc[0].idx), cut_edges=core.guard_edges(f, [ok(PCF + '::flush')]))
    ctx.check(swap[0].bb not in r3['term'], '2pc-flush-ok|%s' % f.path, 'after the 2PC flush, swap_primary_slot only on its Ok edge', f, fl_2pc[0].line)
    # (d) shrink only after the final flush succeeded
    r4 = core.reach(f, cut_blocks={fl_final[0].bb})
    ctx.check(rs[0].bb not in r4['term'], 'order|%s|final-flush|resize' % f.path, 'file resize (shrink) only after the final flush', f, rs[0].line)
    r5 = core.reach(f, start=(fl_final[0].bb, fl_final[0].idx), cut_edges=core.guard_edges(f, [ok(PCF + '::flush')]))
    ctx.check(rs[0].bb not in r5['term'], 'after-success|%s|final-flush|resize' % f.path, 'file resize (shrink) only on the Ok edge of the final flush', f, rs[0].line)
    # (e) two_phase_commit store between the two header writes
    st2 = ctx.stores(f, 'two_phase_commit', owner='DatabaseHeader')
    ctx.order(f, wh1, st2, 'header.two_phase_commit stored after the first write_header')
    for s in st2:
        ctx.order(f, [s], wh2, 'header.two_phase_commit stored before the second write_header')
        ok_flow = False
        rv = s.fn.blocks[s.bb]['s'][s.idx][2]
        if rv['k'] == 'use':
            ok_flow = core.flows_from_arg(f, rv['o'], 'two_phase')
        ctx.check(ok_flow, 'flow|%s|two_phase_commit' % f.path, 'header.two_phase_commit is assigned from parameter two_phase', f, s.line)
    # (f) in-memory publication after the final flush succeeded, under the state lock
    pub = ctx.stores(f, 'header', owner='InMemoryState')
    rfs = ctx.stores(f, 'read_from_secondary', owner='InMemoryState', value=False)
    for p in pub + rfs:
        ctx.check(not core.point_reached(f, r4, p.bb, p.idx), 'order|%s|final-flush|%s' % (f.path, p.desc), '%s only after the final flush' % p.desc, f, p.line)
        ctx.check(not core.point_reached(f, r5, p.bb, p.idx), 'after-success|%s|final-flush|%s' % (f.path, p.desc), '%s only on the Ok edge of the final flush' % p.desc, f, p.line)
    held_at_stores(ctx, f, pub + rfs, 'self.state')
    # the secondary slot of the *private copy* is rewritten: the shared in-memory header must not name
    # the new roots before they are durable (readers are served from it)
    ctx.not_held(f, wss + swap, 'self.state', 'slot rewritten / primary flipped on the private header copy, not under the state lock')
    for p_ in wss + swap:
        a0 = p_.call.t['a'][0]
        root = None
        if a0[0] in ('c', 'm'):
            for d_ in f.defs.get(a0[1][0], []):
                if d_[0] == 'stmt' and d_[3]['k'] == 'ref' and not d_[3]['p'][1]:
                    root = d_[3]['p'][0]
        is_clone = root is not None and any(d_[0] == 'call' and core.CallSite(f, d_[1], d_[2]).matches('Clone::clone') for d_ in f.defs.get(root, []))
        ctx.check(is_clone, 'receiver|%s|%s' % (f.path, p_.desc), '%s operates on a local clone of the header (`%s`), not on the shared in-memory header' % (p_.desc, f.local_name(root) if root is not None else '?'), f, p_.line)
    # (g) id monotonicity assert cuts write_secondary_slot (assert!, not debug_assert!)
    ctx.guarded_cmp(f, wss, [Guard(call='DatabaseHeader::primary_slot', cmp=True)], 'write_secondary_slot control-dependent on the transaction-id comparison with the primary slot')
    # entry: refuse after an I/O failure
    ctx.guarded(f, wss + wh, [ok(PCF + '::check_io_errors')], 'header writes only after check_io_errors returned Ok')
    # unpersisted.clear only after final flush Ok
    clr = ctx.sites(f, 'UnpersistedState::clear', exact=1)
    for p in clr:
        ctx.check(p.bb not in r5['term'], 'after-success|%s|final-flush|unpersisted.clear' % f.path, 'UnpersistedState::clear only on the Ok edge of the final flush', f, p.line)


def held_at_stores(ctx, f, points, lock_desc):
    """a store through a MutexGuard deref: the guard local must be live at the block."""
    for p in points:
        classes = core.held_classes_at(p.fn, p.bb, p.idx, must=True)
        # statement-level: guard must be live at the terminator of the block or acquired earlier in block
        okk = any(c == lock_desc or c.endswith(lock_desc) for c in classes)
        ctx._ob(okk, ctx.sample('held', p.fn, p.line, '%s under lock %s' % (p.desc, lock_desc)))
        if not okk:
            ctx.violate('held|%s|%s|%s' % (p.fn.path, p.desc, lock_desc), 'HELD-LOCK violated: %s without a live guard of %s (live: %s)' % (p.desc, lock_desc, sorted(classes)), p.fn, p.line)


# ------------------------------------------------------------------------------------ C01.R2
def c01_r2_grow(ctx):
    ctx.set_rule('C01.R2', 'TM::grow: resize -> sync_file -> layout published')
    f = ctx.fn(TM + '::grow')
    if f is None:
        return
    rs = ctx.sites(f, PCF + '::resize', exact=1)
    sy = ctx.sites(f, PCF + '::sync_file', exact=1)
    sl = ctx.sites(f, 'DatabaseHeader::set_layout', exact=1)
    rz = ctx.sites(f, 'Allocators::resize_to', exact=1)
    ctx.order(f, rs, sy, 'file resize before sync_file')
    ctx.order(f, sy, sl + rz, 'sync_file before the new layout is published in memory')
    ctx.guarded(f, sy, [ok(PCF + '::resize')], 'sync_file only after resize returned Ok')
    ctx.guarded(f, sl + rz, [ok(PCF + '::sync_file')], 'layout published only after sync_file returned Ok')
    # the length passed to resize is the new layout's
    for p in rs:
        ctx.flows(f, p, 1, from_call='DatabaseLayout::calculate', what='resize length derives from the newly calculated layout')
    for p in sl:
        ctx.flows(f, p, 1, from_call='DatabaseLayout::calculate', what='published layout is the newly calculated layout')
    # PCF::flush = flush_write_buffer then sync_data
    ctx.set_rule('C01.R2b', 'PCF::flush: write buffer drained before sync_data; sync_file syncs')
    g = ctx.fn(PCF + '::flush')
    if g is not None:
        a = ctx.sites(g, PCF + '::flush_write_buffer', exact=1)
        b = ctx.sites(g, CB + '::sync_data', exact=1)
        ctx.order(g, a, b)
        ctx.guarded(g, b, [ok(PCF + '::flush_write_buffer')], 'sync_data only after flush_write_buffer returned Ok')
        ctx.must_pass(g, b, what='every success path of flush passes sync_data')
    g = ctx.fn(PCF + '::sync_file')
    if g is not None:
        b = ctx.sites(g, CB + '::sync_data', exact=1)
        ctx.must_pass(g, b, what='every success path of sync_file passes sync_data')
    g = ctx.fn(PCF + '::flush_write_buffer')
    if g is not None:
        w = ctx.sites(g, CB + '::write', exact=1)
        clr = ctx.sites(g, 'LRUWriteCache::clear', exact=1)
        st = ctx.atomic_sites(g, 'store', 'committed_pages_buffered', exact=1, value=False)
        ctx.after_success_from(g, w, CB + '::write', clr + st, 'a failed page write returns before the stripe is cleared / the flag reset')
        # the flag is reset only after the loop over all stripes: no lock() reachable after it
        lk = ctx.sites(g, 'Mutex::lock', exact=1)
        if st and lk:
            r = core.reach(g, start=(st[0].bb, st[0].idx))
            ctx.check(lk[0].bb not in r['term'], 'order|%s|flag-after-drain' % g.path, 'committed_pages_buffered is cleared only after every stripe was drained (no stripe lock after it)', g, st[0].line)
    g = ctx.fn(PCF + '::resize')
    if g is not None:
        sl_ = ctx.sites(g, CB + '::set_len', exact=1)
        inv = ctx.sites(g, PCF + '::invalidate_read_cache_above', exact=1)
        ctx.must_pass(g, sl_, what='every success path of resize passes set_len')
        ctx.flows(g, sl_[0] if sl_ else None, 1, from_arg='len')


# ------------------------------------------------------------------------------------ C01.R3
def c01_r3_owners(ctx):
    ctx.set_rule('C01.R3', 'who writes the header / syncs / resizes / commits (frozen tables)')
    ctx.callers_eq(TM + '::write_header', {TM + '::commit', TM + '::begin_writable', TM + '::clear_recovery_required', TM + '::flush_shutdown_header'})
    ctx.callers_eq(PCF + '::flush', {TM + '::commit', TM + '::begin_writable', TM + '::clear_recovery_required', TM + '::flush_shutdown_header', TM + '::new', TM + '::clear_cache_and_reload'})
    ctx.callers_eq(PCF + '::sync_file', {TM + '::grow', TM + '::clear_cache_and_reload'})
    ctx.callers_eq(PCF + '::resize', {TM + '::commit', TM + '::grow', TM + '::new'})
    ctx.callers_eq(PCF + '::write', {TM + '::allocate_helper', TM + '::clear_cache_and_reload', TM + '::get_page_mut', TM + '::new', TM + '::write_header'})
    ctx.callers_eq(TM + '::commit', {WT + '::durable_commit', 'Database::new', 'Database::check_integrity_inner'})
    ctx.callers_eq(TM + '::non_durable_commit', {WT + '::non_durable_commit', WT + '::process_data_freed_pages_after_commit'})
    ctx.callers_eq(TM + '::grow', {TM + '::allocate_helper'})
    ctx.callers_eq(TM + '::try_shrink', {TM + '::commit'})
    ctx.callers_eq('DatabaseHeader::set_layout', {TM + '::grow', TM + '::try_shrink', 'UnrepairedDatabaseHeader::finalize'})
    # header writes (offset 0 of the file): PCF::write with constant offset 0
    zero = set()
    for path, sites in ctx.facts.callers_of(PCF + '::write').items():
        for c in sites:
            a = c.t['a'][1]
            if a[0] == 'k' and a[2] == 0:
                zero.add(path)
    exp = {TM + '::write_header', TM + '::new', TM + '::clear_cache_and_reload'}
    for p in sorted(zero):
        okk = any(core.name_matches(e, core.alt_names(p)) for e in exp)
        ctx.check(okk, 'new-header-writer|%s' % p, 'function `%s` writes file offset 0 (the database header); confirmed writers: %s' % (p, sorted(exp)))
    ctx.check(len(zero) >= 3, 'floor|header-writers', 'at least the 3 confirmed header writers are found (found %d)' % len(zero))


# ------------------------------------------------------------------------------------ C01.R4
def c01_r4_non_durable(ctx):
    ctx.set_rule('C01.R4', 'TM::non_durable_commit touches no storage; slot write and read_from_secondary under one state guard')
    f = ctx.fn(TM + '::non_durable_commit')
    if f is None:
        return
    ctx.no_reach([TM + '::non_durable_commit'], [CB + '::write', CB + '::write_best_effort', CB + '::set_len', CB + '::sync_data', 'StorageBackend::write', 'StorageBackend::set_len', 'StorageBackend::sync_data', PCF + '::flush', PCF + '::write'])
    wb = ctx.sites(f, PCF + '::write_barrier', exact=1)
    wss = ctx.sites(f, 'DatabaseHeader::write_secondary_slot', exact=1)
    rfs = ctx.stores(f, 'read_from_secondary', owner='InMemoryState', value=True)
    ctx.order(f, wb, wss, 'write_barrier before the secondary slot is rewritten')
    ctx.order(f, wss, rfs, 'secondary slot written before read_from_secondary = true')
    ctx.held(f, wss, 'self.state')
    held_at_stores(ctx, f, rfs, 'self.state')
    # one guard: no lock() of state between the two
    locks = [p for p in ctx.sites(f, 'Mutex::lock', floor=2) if 'state' in core.lock_class_of_call(p.fn, p.bb)]
    ctx.check(len(locks) == 1, 'one-guard|%s' % f.path, 'exactly one acquisition of self.state in non_durable_commit (slot and flag change together)', f, f.line)
    ctx.guarded(f, wss, [ok(PCF + '::check_io_errors')], 'secondary slot only after check_io_errors returned Ok')
    ctx.must_pass(f, rfs, start=wss[0] if wss else None, what='every success path after write_secondary_slot sets read_from_secondary')
    ext = ctx.sites(f, 'UnpersistedState::extend', exact=1)
    ctx.order(f, ext, wss, 'newly allocated pages recorded as unpersisted before the commit is published')
    # write_barrier sets the flag behind write_buffer_bytes > 0
    g = ctx.fn(PCF + '::write_barrier')
    if g is not None:
        st = ctx.atomic_sites(g, 'store', 'committed_pages_buffered', exact=1, value=True)
        ctx.guarded_cmp(g, st, [Guard(place='self.write_buffer_bytes', cmp=True)], 'flag set only when the write buffer is non-empty')
        ctx.no_reach([PCF + '::write_barrier'], [CB + '::write', CB + '::sync_data'])


# ------------------------------------------------------------------------------------ C01.R6
def c01_r6_checksums_final(ctx):
    ctx.set_rule('C01.R6', 'roots handed to the commit slot are finalized roots')
    f = ctx.fn(WT + '::durable_commit')
    if f is not None:
        cm = ctx.sites(f, TM + '::commit', exact=1)
        fin = ctx.sites(f, 'TableTreeMut::finalize_dirty_checksums', exact=1)
        ctx.order(f, fin, cm, 'system tree checksums finalized before TM::commit')
        ctx.guarded(f, cm, [ok('TableTreeMut::finalize_dirty_checksums')], 'TM::commit only after finalize_dirty_checksums returned Ok')
        for p in cm:
            ctx.flows(f, p, 2, from_call='TableTreeMut::finalize_dirty_checksums', what='system_root argument of TM::commit derives from finalize_dirty_checksums')
            ctx.flows(f, p, 1, from_arg='user_root', what='data root argument of TM::commit is the user_root parameter')
            ctx.flows(f, p, 4, from_arg='self', what='two_phase argument comes from the transaction')
    f = ctx.fn(WT + '::commit_inner_helper')
    if f is not None:
        fc = ctx.sites(f, 'TableTreeMut::flush_and_close', exact=1)
        dc = ctx.sites(f, WT + '::durable_commit', exact=1)
        nd = ctx.sites(f, WT + '::non_durable_commit', exact=1)
        ctx.guarded(f, dc + nd, [ok('TableTreeMut::flush_and_close')], 'commit only after flush_and_close returned Ok')
        for p in dc + nd:
            ctx.flows(f, p, 1, from_call='TableTreeMut::flush_and_close', what='user_root derives from flush_and_close')
    f = ctx.fn(WT + '::non_durable_commit')
    if f is not None:
        cm = ctx.sites(f, TM + '::non_durable_commit', exact=1)
        ctx.guarded(f, cm, [ok('TableTreeMut::finalize_dirty_checksums')], 'TM::non_durable_commit only after finalize_dirty_checksums returned Ok')
        for p in cm:
            ctx.flows(f, p, 2, from_call='TableTreeMut::finalize_dirty_checksums')
            ctx.flows(f, p, 1, from_arg='user_root')
    f = ctx.fn(WT + '::process_data_freed_pages_after_commit')
    if f is not None:
        cm = ctx.sites(f, TM + '::non_durable_commit', exact=1)
        ctx.guarded(f, cm, [ok('TableTreeMut::finalize_dirty_checksums')], 'epilogue publishes only after finalize_dirty_checksums returned Ok')
        for p in cm:
            ctx.flows(f, p, 2, from_call='TableTreeMut::finalize_dirty_checksums')
            ctx.flows(f, p, 1, from_arg='user_root')


# ------------------------------------------------------------------------------------ C01.R7
def c01_r7_latch(ctx):
    ctx.set_rule('C01.R7', 'irreversibility latch: allocator state discarded unless the commit completed')
    f = ctx.fn(WT + '::commit_inner')
    if f is not None:
        arm = ctx.sites(f, 'AllocatorStateLatch::arm', exact=1)
        h = ctx.sites(f, WT + '::commit_inner_helper', exact=1)
        dis = ctx.sites(f, 'AllocatorStateLatch::disarm', exact=1)
        ctx.order(f, arm, h, 'latch armed before commit_inner_helper')
        ctx.guarded(f, dis, [ok(WT + '::commit_inner_helper')], 'disarm only if commit_inner_helper returned Ok')
    g = ctx.fn('<AllocatorStateLatch as Drop>::drop')
    if g is not None:
        inv = ctx.sites(g, TM + '::invalidate_allocator_state', exact=1)
        ctx.guarded(g, inv, [Guard(place='self.mem', vals={'Some'})], 'invalidate on the armed (Some) edge')
        # every path with Some passes invalidate
        e_none = core.guard_edges(g, [Guard(place='self.mem', vals={'None'})])
        ctx.must_pass(g, inv, exits='any', extra_cut_edges=e_none, what='armed latch always invalidates the allocator state on drop')
    d = ctx.fn('AllocatorStateLatch::disarm')
    if d is not None:
        st = ctx.stores(d, 'mem', owner='AllocatorStateLatch')
    a = ctx.fn('AllocatorStateLatch::arm')
    if a is not None:
        # arm stores Some(mem)
        aggs = [1 for b in a.blocks for st_ in b['s'] if st_[0] == 'a' and st_[2]['k'] == 'agg' and st_[2]['a'].endswith('Option') and st_[2]['v'] == 'Some']
        ctx.check(len(aggs) >= 1, 'shape|arm-some', 'AllocatorStateLatch::arm stores Some(mem)', a, a.line)
    ctx.callers_eq('AllocatorStateLatch::arm', {WT + '::commit_inner'})
    ctx.callers_eq('AllocatorStateLatch::disarm', {WT + '::commit_inner'})
    ctx.callers_eq(PA + '::adopt_unpersisted', {WT + '::commit_inner_helper'})
    f = ctx.fn(WT + '::commit_inner_helper')
    if f is not None:
        ad = ctx.sites(f, PA + '::adopt_unpersisted', exact=1)
        ctx.guarded(f, ad, [ok('TableTreeMut::flush_and_close')], 'adopt_unpersisted only after flush_and_close returned Ok')
        ctx.guarded_cmp(f, ad, [Guard(place='self.durability', cmp=True)], 'adopt_unpersisted control-dependent on the durability test')
    ctx.callers_eq(TM + '::invalidate_allocator_state', {'<AllocatorStateLatch as Drop>::drop', 'Database::check_integrity'})


# ------------------------------------------------------------------------------------ C01.R8
def c01_r8_open_recovery(ctx):
    ctx.set_rule('C01.R8', 'open/recovery ordering')
    f = ctx.fn(TM + '::new')
    if f is not None:
        tb = ctx.sites(f, 'DatabaseHeader::to_bytes', floor=3)
        nomagic = [p for p in tb if p.call.t['a'][1][0] == 'k' and p.call.t['a'][1][2] is False]
        magic = [p for p in tb if p.call.t['a'][1][0] == 'k' and p.call.t['a'][1][2] is True]
        ctx.check(len(nomagic) == 1 and len(magic) >= 2, 'shape|to_bytes', 'one header serialisation without magic and >=2 with magic in TM::new', f, f.line)
        if len(nomagic) == 1:
            edges = core.guard_edges(f, [ok(PCF + '::flush')])
            r = core.reach(f, start=(nomagic[0].bb, nomagic[0].idx), cut_edges=edges)
            for m in magic:
                hit = m.bb in r['term']
                ctx._ob(not hit, ctx.sample('order', f, m.line, 'magic header only after the magic-less header was flushed (Ok)'))
                if hit:
                    ctx.violate('order|%s|flush-before-magic' % f.path, 'header with magic number serialised without a successful flush of the magic-less header', f, m.line)
            # and every success path from it passes flush
            ctx.must_pass(f, ctx.sites(f, PCF + '::flush', floor=3), start=nomagic[0], what='every success path after initialising the header passes flush')
        # PCF::new precedes every fallible storage op: C20.R3 checks that
    f = ctx.fn('Database::new')
    if f is not None:
        bw = ctx.sites(f, TM + '::begin_writable', exact=1)
        ctx.guarded(f, bw, [ok(TM + '::load_allocator_state'), ok(TM + '::commit')], 'begin_writable only after load_allocator_state or the repair commit returned Ok')
        cm = ctx.sites(f, TM + '::commit', exact=1)
        ctx.guarded(f, cm, [ok('Database::do_repair')], 'repair commit only after do_repair returned Ok')
        la = ctx.sites(f, TM + '::load_allocator_state', exact=1)
        ctx.guarded(f, la, [Guard(call='Database::get_allocator_state_table', vals={'Some'})], 'load_allocator_state only on the Some edge of get_allocator_state_table')
        for p in cm:
            ctx.flows(f, p, 1, from_call='Database::do_repair')
            ctx.flows(f, p, 2, from_call='Database::do_repair')
            ctx.flows(f, p, 3, from_call=TM + '::get_last_committed_transaction_id')
            ctx.const_arg(f, p, 4, True, 'repair commit uses two-phase commit')
    f = ctx.fn('Database::do_repair')
    if f is not None:
        crr = ctx.sites(f, TM + '::clear_recovery_required', exact=1)
        ctx.guarded(f, crr, [Guard(call='Database::primary_verifies', vals={'true'})], 'clear_recovery_required only after a primary slot verified')
        rb = ctx.sites(f, 'Database::rebuild_allocator_state', exact=1)
        ctx.guarded(f, rb, [Guard(call='Database::primary_verifies', vals={'true'})], 'allocator rebuilt only from a verified primary')
        ctx.guarded(f, crr, [ok('Database::rebuild_allocator_state')], 'clear_recovery_required only after the rebuild returned Ok')
        rpc = ctx.sites(f, TM + '::repair_primary_corrupted', exact=1)
        ctx.guarded(f, rpc, [Guard(call='Database::primary_verifies', vals={'false'})], 'slot swap only when the primary failed verification')
        ctx.guarded(f, rpc, [Guard(call=TM + '::used_two_phase_commit', vals={'false'})], 'no fallback to the secondary after a two-phase commit')
    f = ctx.fn(TM + '::begin_writable')
    if f is not None:
        st = ctx.stores(f, 'recovery_required', owner='DatabaseHeader', value=True)
        wh = ctx.sites(f, TM + '::write_header', exact=1)
        fl = ctx.sites(f, PCF + '::flush', exact=1)
        ctx.order(f, st, wh)
        ctx.order(f, wh, fl)
        ctx.must_pass(f, fl, what='begin_writable flushes the recovery_required header on every success path')
    f = ctx.fn(TM + '::clear_recovery_required')
    if f is not None:
        st = ctx.stores(f, 'recovery_required', owner='DatabaseHeader', value=False)
        wh = ctx.sites(f, TM + '::write_header', exact=1)
        fl = ctx.sites(f, PCF + '::flush', exact=1)
        ctx.order(f, st, wh)
        ctx.order(f, wh, fl)
        ctx.must_pass(f, fl, what='clear_recovery_required flushes on every success path')
    ctx.callers_eq(TM + '::clear_recovery_required', {'Database::do_repair'})
    ctx.callers_eq(TM + '::begin_writable', {'Database::new', 'Database::check_integrity_inner'})
    ctx.callers_eq(TM + '::repair_primary_corrupted', {'Database::do_repair'})


# ------------------------------------------------------------------------------------ C01.R9
def c01_r9_clean_close(ctx):
    ctx.set_rule('C01.R9', 'clean close only records a clean shutdown for a consistent, failure-free state')
    f = ctx.fn(TM + '::flush_shutdown_header')
    if f is not None:
        st = ctx.stores(f, 'recovery_required', owner='DatabaseHeader', value=False)
        wh = ctx.sites(f, TM + '::write_header', exact=1)
        tg = st + wh
        ctx.guarded(f, tg, [ok(PCF + '::check_io_errors')], 'shutdown header only if no I/O failure is latched')
        ctx.guarded(f, tg, [false_of('panicking')], 'shutdown header not while panicking')
        ctx.guarded(f, tg, [Guard(place='allocators', vals={'Some'})], 'shutdown header only with an allocator state')
        ctx.guarded(f, tg, [false_of(TM + '::needs_repair')], 'shutdown header not when repair is needed')
        ctx.guarded(f, tg, [ok(PCF + '::flush')], 'shutdown header only after a successful flush of the data')
        fl = ctx.sites(f, PCF + '::flush', exact=2)
        ctx.must_pass(f, fl, start=wh[0] if wh else None, what='the shutdown header is flushed')
    ctx.callers_eq(TM + '::flush_shutdown_header', {TM + '::close'})
    f = ctx.fn('close_database')
    if f is not None:
        en = ctx.sites(f, 'ensure_allocator_state_table_and_trim', exact=1)
        ctx.guarded(f, en, [false_of('panicking')], 'no final quick-repair commit while panicking')
        ctx.guarded(f, en, [false_of(TM + '::needs_repair')], 'no allocator snapshot of a state that needs repair')
        cl = ctx.sites(f, TM + '::close', exact=1)
        ctx.must_pass(f, cl, exits='any', what='close_database always closes the memory')
    f = ctx.fn('ensure_allocator_state_table_and_trim')
    if f is not None:
        qr = ctx.sites(f, WT + '::set_quick_repair', exact=1)
        cm = ctx.sites(f, WT + '::commit', exact=1)
        for p in qr:
            ctx.const_arg(f, p, 1, True)
        ctx.order(f, qr, cm, 'quick repair enabled before the final commit')
        ctx.must_pass(f, cm, what='the closing transaction is committed')
    ctx.callers_eq('ensure_allocator_state_table_and_trim', {'close_database'})
    ctx.callers_eq('close_database', {'<Database as Drop>::drop', '<TransactionGuard as Drop>::drop'})
    # quick repair implies two-phase commit
    f = ctx.fn(WT + '::commit_inner_helper')
    if f is not None:
        st = ctx.stores(f, 'two_phase_commit', owner='WriteTransaction', value=True)
        ctx.guarded(f, st, [Guard(place='self.quick_repair', vals={'true'})], 'quick_repair forces two_phase_commit')
        e_false = core.guard_edges(f, [Guard(place='self.quick_repair', vals={'false'})])
        fc = ctx.sites(f, 'TableTreeMut::flush_and_close', exact=1)
        if st and fc:
            r = core.reach(f, cut_edges=e_false, cut_points={(st[0].bb, st[0].idx)})
            ctx.check(fc[0].bb not in r['term'], 'must-pass|%s|quick-repair-2pc' % f.path, 'with quick_repair set, two_phase_commit = true is stored before anything else happens', f, st[0].line)


# ------------------------------------------------------------------------------------ C02.R1 / R2
def c02_r1_register_atomic(ctx):
    ctx.set_rule('C02.R1', 'reader registration is atomic with reading the last committed id')
    f = ctx.fn(TT + '::register_read_transaction')
    if f is None:
        return
    # the id (and, since the repair of the reader-registration race, the root) of the latest commit: one call
    SNAP = [TM + '::get_last_committed_snapshot', TM + '::get_last_committed_transaction_id']
    g = ctx.sites(f, SNAP, exact=1)
    e = ctx.sites(f, 'BTreeMap::entry', exact=1)
    ctx.held(f, g + e, 'self.state')
    locks = ctx.sites(f, 'Mutex::lock', exact=1)
    ctx.order(f, g, e, 'id read before the registration')
    for p in e:
        ok_ = core.flows_from_call(f, p.call.t['a'][1], SNAP[0]) or core.flows_from_call(f, p.call.t['a'][1], SNAP[1])
        ctx._ob(bool(ok_), ctx.sample('arg-flow', f, p.line, 'the registered id is the id just read'))
        if not ok_:
            ctx.violate('arg-flow|%s|registered-id' % f.path, 'the id registered in live_read_transactions is not the id just read from TransactionalMemory', f, p.line)
    ctx.guarded(f, e, [ok(SNAP[0]), ok(SNAP[1])])
    # returns that id
    rets = [1]
    # get_last_committed_transaction_id reads latest_slot under the TM.state lock
    h = ctx.fn(TM + '::get_last_committed_transaction_id')
    if h is not None:
        ls = ctx.sites(h, 'InMemoryState::latest_slot', exact=1)
        ctx.held(h, ls, 'self.state')
    for nm in ('get_data_root', 'get_system_root', 'get_last_committed_snapshot'):
        h = ctx.fn(TM + '::' + nm)
        if h is not None:
            ls = ctx.sites(h, 'InMemoryState::latest_slot', exact=1)
            ctx.held(h, ls, 'self.state')
    h = ctx.fn('InMemoryState::latest_slot')
    if h is not None:
        sec = ctx.sites(h, 'DatabaseHeader::secondary_slot', exact=1)
        pri = ctx.sites(h, 'DatabaseHeader::primary_slot', exact=1)
        ctx.guarded(h, sec, [Guard(place='self.read_from_secondary', vals={'true'})], 'secondary slot served only when read_from_secondary')
        ctx.guarded(h, pri, [Guard(place='self.read_from_secondary', vals={'false'})], 'primary slot served otherwise')


def c02_r2_register_before_root(ctx):
    ctx.set_rule('C02.R2', 'a reader/savepoint registers before its root is read')
    f = ctx.fn('<Database as ReadableDatabase>::begin_read')
    if f is not None:
        ar = ctx.sites(f, 'TransactionGuard::allocate_read', exact=1)
        nw = ctx.sites(f, 'ReadTransaction::new', exact=1)
        ctx.guarded(f, nw, [ok('TransactionGuard::allocate_read')], 'ReadTransaction::new only after the registration returned Ok')
        ctx.no_direct(f, [TM + '::get_data_root', TM + '::get_system_root'], 'begin_read itself reads no root')
    if ctx.cfg != 'N':
        f = ctx.fn('<ReadOnlyDatabase as ReadableDatabase>::begin_read')
        if f is not None:
            rr = ctx.sites(f, TT + '::register_read_transaction', exact=1)
            nw = ctx.sites(f, 'ReadTransaction::new', exact=1)
            ctx.guarded(f, nw, [ok(TT + '::register_read_transaction')])
            nr = ctx.sites(f, 'TransactionGuard::new_read', exact=1)
            for p in nr:
                ctx.flows(f, p, 0, from_call=TT + '::register_read_transaction', what='guard carries the registered id')
    f = ctx.fn('TransactionGuard::allocate_read')
    if f is not None:
        rr = ctx.sites(f, TT + '::register_read_transaction', exact=1)
        nr = ctx.sites(f, 'TransactionGuard::new_read', exact=1)
        ctx.guarded(f, nr, [ok(TT + '::register_read_transaction')])
        for p in nr:
            ctx.flows(f, p, 0, from_call=TT + '::register_read_transaction', what='guard carries the registered id')
    f = ctx.fn('ReadTransaction::new')
    if f is not None:
        # the root is handed in by the creator, who got it from the registration (C02.R12 checks that half)
        tt = ctx.sites(f, 'TableTree::new', exact=1)
        for p in tt:
            ctx.flows(f, p, 0, from_arg='root_page', what='the table tree is built from the root that belongs to the guard')
            ctx.flows(f, p, 2, from_arg='guard', what='the table tree owns the transaction guard')
    ctx.callers_eq('ReadTransaction::new', {'<Database as ReadableDatabase>::begin_read', '<ReadOnlyDatabase as ReadableDatabase>::begin_read'},
                   allow_missing=({'<ReadOnlyDatabase as ReadableDatabase>::begin_read'} if ctx.cfg == 'N' else ()))
    # the registration step lives in the private wrapper WriteTransaction::allocate_savepoint, or
    # (wrapper inlined) in ephemeral_savepoint itself
    wrapped = ctx.has_fn(WT + '::allocate_savepoint')
    f = ctx.fn(WT + '::allocate_savepoint') if wrapped else ctx.fn(WT + '::ephemeral_savepoint')
    if f is not None:
        rr = ctx.sites(f, TT + '::register_read_transaction', exact=1)
        al = ctx.sites(f, TT + '::allocate_savepoint', exact=1)
        ctx.guarded(f, al, [ok(TT + '::register_read_transaction')], 'savepoint id allocated only after the read registration returned Ok')
        for p in al:
            ctx.flows(f, p, 1, from_call=TT + '::register_read_transaction')
    f = ctx.fn(WT + '::ephemeral_savepoint')
    if f is not None:
        reg = WT + '::allocate_savepoint' if wrapped else TT + '::register_read_transaction'
        al = ctx.sites(f, reg, exact=1)
        gr = ctx.sites(f, TM + '::get_data_root', exact=1)
        ctx.guarded(f, gr, [ok(reg)], 'savepoint root read only after the registration')
        ne = ctx.sites(f, 'Savepoint::new_ephemeral', exact=1)
        for p in ne:
            ctx.flows(f, p, 4, from_call=TM + '::get_data_root')
            ctx.flows(f, p, 3, from_call=reg)
            ctx.flows(f, p, 2, from_call=reg)


# ------------------------------------------------------------------------------------ C02.R3
def c02_r3_free_horizon(ctx):
    ctx.set_rule('C02.R3', 'free horizon derives from the oldest live reader')
    f = ctx.fn(WT + '::durable_commit')
    if f is not None:
        pf = ctx.sites(f, WT + '::process_freed_pages', exact=1)
        for p in pf:
            ctx.flows(f, p, 1, from_call=TT + '::oldest_live_read_transaction')
        ep = ctx.sites(f, WT + '::process_data_freed_pages_after_commit', exact=1)
        for p in ep:
            ctx.flows(f, p, 3, from_call=WT + '::flush_data_allocated_pages', what='savepoint horizon passed to the epilogue comes from the purge')
    f = ctx.fn(WT + '::process_data_freed_pages_after_commit')
    if f is not None:
        ex = ctx.sites(f, WT + '::extract_freed_pages', exact=1)
        for p in ex:
            ctx.flows(f, p, 2, from_call=[TT + '::oldest_live_read_transaction', 'Ord::min'], from_arg='savepoint_horizon',
                      what='epilogue free_until derives from the oldest live read clamped (min) by savepoint_horizon')
    f = ctx.fn(WT + '::non_durable_commit')
    if f is not None:
        pf = ctx.sites(f, WT + '::process_freed_pages_nondurable', exact=1)
        for p in pf:
            ctx.flows(f, p, 1, from_call=TT + '::oldest_live_read_nondurable_transaction')
    f = ctx.fn(WT + '::process_freed_pages')
    if f is not None:
        ex = ctx.sites(f, WT + '::extract_freed_pages', exact=2)
        for p in ex:
            ctx.flows(f, p, 2, from_arg='free_until')
    f = ctx.fn(WT + '::extract_freed_pages')
    if f is not None:
        ei = ctx.sites(f, 'SystemTable::extract_from_if', exact=1)
        for p in ei:
            ctx.flows(f, p, 1, from_arg='free_until', what='only entries below free_until are extracted')
    # the tracker's notion of oldest: first key of live_read_transactions, under the lock
    f = ctx.fn(TT + '::oldest_live_read_transaction')
    if f is not None:
        k = ctx.sites(f, 'BTreeMap::keys', exact=1)
        ctx.held(f, k, 'self.state')


# ------------------------------------------------------------------------------------ C02.R4
def c02_r4_who_frees(ctx):
    ctx.set_rule('C02.R4', 'who may release a page, and under which guard')
    ctx.callers_eq(TM + '::free', {PA + '::rollback_all', PA + '::free', PA + '::free_if_uncommitted'})
    ctx.callers_eq(TM + '::free_helper', {TM + '::free', TM + '::free_if_unpersisted'})
    ctx.callers_eq(PA + '::free', {
        WT + '::restore_savepoint_inner', WT + '::durable_commit', WT + '::process_freed_pages',
        WT + '::process_data_freed_pages_after_commit', WT + '::compact_pages',
        'MutateHelper::insert_helper', 'MutateHelper::delete_leaf_at_position',
    }, ignore=())
    ctx.callers_eq(TM + '::free_if_unpersisted', {WT + '::non_durable_commit', WT + '::process_freed_pages_nondurable', WT + '::process_freed_pages_nondurable_helper'})
    # a non-durable commit frees only unpersisted pages
    ctx.no_reach([WT + '::non_durable_commit'], [PA + '::free', TM + '::free', PA + '::free_if_uncommitted', PA + '::conditional_free'],
                 what='non-durable commit path never frees through the unconditional door') if False else None
    for nm in (WT + '::non_durable_commit', WT + '::process_freed_pages_nondurable', WT + '::process_freed_pages_nondurable_helper'):
        f = ctx.fn(nm)
        if f is not None:
            bad = f.family_calls_to([PA + '::free', TM + '::free'])
            ctx.check(not bad, 'direct-free|%s' % f.path, 'no direct PageAllocator::free / TransactionalMemory::free in the non-durable commit path `%s`' % nm, f, bad[0].line if bad else f.line)
    for nm in ('free_if_unpersisted', 'claim_unpersisted'):
        f = ctx.fn(TM + '::' + nm)
        if f is not None:
            ctx.sites(f, 'UnpersistedState::claim', exact=1)
    f = ctx.fn(TM + '::free_if_unpersisted')
    if f is not None:
        fh = ctx.sites(f, TM + '::free_helper', exact=1)
        ctx.guarded(f, fh, [true_of('UnpersistedState::claim')], 'free only when the page was claimed from the unpersisted set')
    f = ctx.fn(PA + '::free_if_uncommitted')
    if f is not None:
        fh = ctx.sites(f, TM + '::free', exact=1)
        ctx.guarded(f, fh, [true_of('UncommittedPages::remove')], 'free only when the page was allocated by this transaction')
    f = ctx.fn(PA + '::conditional_free')
    if f is not None:
        pu = ctx.sites(f, 'Vec::push', exact=1)
        ctx.guarded(f, pu, [false_of(PA + '::free_if_uncommitted')], 'committed pages are queued, not freed')
        ctx.must_pass(f, ctx.sites(f, PA + '::free_if_uncommitted', exact=1), exits='any')
    # system pages are freed only after the durable commit succeeded
    f = ctx.fn(WT + '::durable_commit')
    if f is not None:
        fr = ctx.sites(f, PA + '::free', exact=1)
        ctx.guarded(f, fr, [ok(TM + '::commit')], 'system-tree pages freed only after TM::commit returned Ok')
    f = ctx.fn(PA + '::rollback_all')
    if f is not None:
        tk = ctx.sites(f, PA + '::take_allocated_since_commit', exact=1)
        fr = ctx.sites(f, TM + '::free', exact=1)
        ctx.order(f, tk, fr)
    f = ctx.fn(WT + '::restore_savepoint_inner')
    if f is not None:
        fr = ctx.sites(f, PA + '::free', exact=1)
        rs = ctx.sites(f, 'PageTracker::reset', exact=1)
        ctx.order(f, rs, fr, 'restore frees pages drained from this transaction\'s allocation tracker')
    f = ctx.fn(WT + '::compact_pages')
    if f is not None:
        fr = ctx.sites(f, PA + '::free', exact=1)
        for p in fr:
            ctx.flows(f, p, 1, from_call=PA + '::allocate_lowest', what='compaction frees only the probe page it just allocated')


# ------------------------------------------------------------------------------------ C02.R5
def c02_r5_free_leaves_caches(ctx):
    ctx.set_rule('C02.R5', 'a freed page leaves both caches; a buffered write drops the read-cache entry')
    f = ctx.fn(TM + '::free_helper')
    if f is not None:
        inv = ctx.sites(f, PCF + '::invalidate_cache', exact=1)
        can = ctx.sites(f, PCF + '::cancel_pending_write', exact=1)
        ctx.must_pass(f, inv, exits='any', what='free_helper always invalidates the read cache entry')
        ctx.must_pass(f, can, exits='any', what='free_helper always cancels the pending write')
        # ... and both happen before the allocator lock is released: otherwise another thread can be
        # handed the page and have its fresh buffer cancelled / its cache entry dropped
        ctx.held(f, inv + can, 'self.state', 'cache entries of the freed page are dropped while the allocator (TM.state) lock is still held')
        fr = ctx.sites(f, 'BuddyAllocator::free', exact=1)
        ctx.must_pass(f, fr, exits='any')
        for p in inv + can:
            ctx.flows(f, p, 1, from_call='PageNumber::address_range', from_arg='page')
    f = ctx.fn(PCF + '::write')
    if f is not None:
        rm = ctx.sites(f, 'LRUCache::remove', exact=1)
        ins = ctx.sites(f, 'LRUWriteCache::insert', exact=1)
        tv = ctx.sites(f, 'LRUWriteCache::take_value', exact=2)
        ctx.order(f, rm, ins + tv, 'read-cache entry removed before the page is buffered for writing')
    f = ctx.fn(PCF + '::cancel_pending_write')
    if f is not None:
        ctx.sites(f, 'LRUWriteCache::remove', exact=1)
    f = ctx.fn(PCF + '::invalidate_cache')
    if f is not None:
        ctx.sites(f, 'LRUCache::remove', exact=1)


# ------------------------------------------------------------------------------------ C02.R7
def c02_r7_pending_pins(ctx):
    ctx.set_rule('C02.R7', 'pins of pending non-durable commits are released only by a successful durable commit')
    ctx.callers_eq(TT + '::clear_pending_non_durable_commits', {WT + '::durable_commit'})
    f = ctx.fn(WT + '::durable_commit')
    if f is not None:
        cl = ctx.sites(f, TT + '::clear_pending_non_durable_commits', exact=1)
        ctx.guarded(f, cl, [ok(TM + '::commit')], 'pins cleared only after TM::commit returned Ok')
    for nm in (WT + '::non_durable_commit', WT + '::process_data_freed_pages_after_commit'):
        f = ctx.fn(nm)
        if f is not None:
            rg = ctx.sites(f, TT + '::register_non_durable_commit', exact=1)
            ctx.guarded(f, rg, [ok(TM + '::non_durable_commit')], 'pin registered only after the non-durable commit was published')
            cm = ctx.sites(f, TM + '::non_durable_commit', exact=1)
            ctx.must_pass(f, rg, start=cm[0] if cm else None, what='every success path after TM::non_durable_commit registers the pin')
    ctx.callers_eq(TT + '::register_non_durable_commit', {WT + '::non_durable_commit', WT + '::process_data_freed_pages_after_commit'})
    f = ctx.fn(TT + '::register_non_durable_commit')
    if f is not None:
        e = ctx.sites(f, 'BTreeMap::entry', exact=1)
        i = ctx.sites(f, 'BTreeMap::insert', exact=1)
        ctx.held(f, e + i, 'self.state')
        # every non-durable commit is registered and pins its durable ancestor -- also one that
        # freed nothing (its readers must still be recognised as readers of a non-durable commit)
        ctx.must_pass(f, e, exits='any', what='every non-durable commit pins its durable ancestor')
        ctx.must_pass(f, i, exits='any', what='every non-durable commit is recorded as pending')
        bi = ctx.sites(f, 'BTreeSet::insert', exact=1)
        ctx.guarded(f, bi, [Guard(place='has_unprocessed_freed_pages', vals={'true'})])
        for p in e:
            ctx.flows(f, p, 1, from_arg='durable_ancestor')
    f = ctx.fn(WT + '::non_durable_commit')
    if f is not None:
        rg = ctx.sites(f, TT + '::register_non_durable_commit', exact=1)
        for p in rg:
            ctx.flows(f, p, 2, from_call=TM + '::get_last_durable_transaction_id', what='the pinned ancestor is the last durable transaction')


# ------------------------------------------------------------------------------------ C02.R8
def c02_r8_clean_reads(ctx):
    ctx.set_rule('C02.R8', 'clean reads consult the write buffer after a non-durable commit')
    f = ctx.fn(PCF + '::read')
    if f is None:
        return
    rd = ctx.sites(f, PCF + '::read_direct_into_arc', exact=1)
    # file read reachable only if: flag false, or hint != Clean, or the buffer lookup returned None
    g = [Guard(place='self.committed_pages_buffered', vals={'false'}),
         Guard(place='hint', vals={'None', 'Dirty'}),
         Guard(call='LRUWriteCache::get', vals={'None'})]
    hint_vars = None
    for a in ctx.facts.adts.values():
        if a['p'].endswith('page_store::base::PageHint'):
            hint_vars = {v['n'] for v in a['variants']}
    ctx.check(hint_vars is not None and 'Clean' in hint_vars, 'anchor|PageHint', 'PageHint enum with a Clean variant exists')
    if hint_vars:
        g[1] = Guard(place='hint', vals=hint_vars - {'Clean'})
    ctx.guarded(f, rd, g, 'file read only if no committed page can be in the write buffer for this offset')
    # read cache hit is fine; write buffer first for PageHint::None
    f2 = ctx.fn(PCF + '::write_barrier')


# ------------------------------------------------------------------------------------ C01.R5
def constructors_of(facts, adt_suffix):
    out = {}
    for f in facts.fn_list:
        for i, b in enumerate(f.blocks):
            for j, st in enumerate(b['s']):
                if st[0] == 'a' and st[2]['k'] == 'agg' and (st[2]['a'] == adt_suffix or st[2]['a'].endswith('::' + adt_suffix)):
                    out.setdefault(facts.root_of(f).path, []).append((f, i, j, st[3]))
    return out


def constructors_eq(ctx, adt, expected):
    got = constructors_of(ctx.facts, adt)
    matched = set()
    for path, sites in sorted(got.items()):
        hit = [e for e in expected if core.name_matches(e, core.alt_names(path))]
        ctx._ob(bool(hit), ctx.sample('constructor', sites[0][0], sites[0][3], '%s constructs %s' % (path, adt)))
        if hit:
            matched.update(hit)
        else:
            ctx.violate('new-constructor|%s|%s' % (adt, path), 'WHO-MAY-CONSTRUCT: `%s` constructs `%s` (confirmed constructors: %s)' % (path, adt, sorted(expected)), sites[0][0], sites[0][3])
    for e in expected:
        if e not in matched:
            ctx._ob(False)
            ctx.violate('lost-constructor|%s|%s' % (adt, e), 'WHO-MAY-CONSTRUCT: confirmed constructor `%s` of `%s` not found (floor)' % (e, adt))


def self_guarding_mutators(ctx):
    """functions that take a PageMut and cut every memory_mut call off from entry by an
    `assert!(uncommitted(..))` / `if uncommitted(..)` true-edge."""
    out = set()
    for f in ctx.facts.fn_list:
        if f.kind == 'closure':
            continue
        if not any('PageMut' in t for t in f.d.get('params', [])):
            continue
        mm = f.calls_to('PageMut::memory_mut')
        if not mm:
            continue
        edges = core.guard_edges(f, [true_of(PA + '::uncommitted')])
        if not edges:
            continue
        r = core.reach(f, cut_edges=edges)
        if all(c.bb not in r['term'] for c in mm):
            out.add(f.path)
    return out


def c01_r5_cow(ctx):
    ctx.set_rule('C01.R5a', 'copy-on-write API shape: who constructs mutable page handles')
    constructors_eq(ctx, 'PageMut', {TM + '::get_page_mut', TM + '::allocate_helper'})
    constructors_eq(ctx, 'WritablePage', {PCF + '::write'})
    constructors_eq(ctx, 'PageImpl', {TM + '::get_page', '<PageImpl as Clone>::clone'})
    ctx.callers_eq(TM + '::get_page_mut', {PA + '::get_page_mut'})
    ctx.callers_eq(TM + '::allocate_helper', {TM + '::allocate', TM + '::allocate_lowest'})
    ctx.callers_eq(TM + '::allocate', {PA + '::allocate'})
    ctx.callers_eq(TM + '::allocate_lowest', {PA + '::allocate', PA + '::allocate_lowest'})
    # Arc::<[u8]>::get_mut: the only way to a &mut view of shared page bytes
    got = {}
    for f in ctx.facts.fn_list:
        for c in f.calls:
            if c.matches('Arc::get_mut') and (c.t.get('ga') or [''])[0] == '[u8]':
                got.setdefault(ctx.facts.root_of(f).path, []).append(c)
    exp = {'WritablePage::mem_mut', PCF + '::read_direct_into_arc'}
    for p, cs in sorted(got.items()):
        okk = any(core.name_matches(e, core.alt_names(p)) for e in exp)
        ctx.check(okk, 'new-caller|Arc<[u8]>::get_mut|%s' % p, '`%s` obtains a mutable view of a shared page buffer (Arc::<[u8]>::get_mut); confirmed: %s' % (p, sorted(exp)), cs[0].fn, cs[0].line)
    ctx.check(len(got) >= 2, 'floor|Arc<[u8]>::get_mut', 'both confirmed Arc::<[u8]>::get_mut sites exist')

    ctx.set_rule('C01.R5b', 'every PageAllocator::get_page_mut is behind an uncommitted() true-edge (or a listed exception)')
    sg = self_guarding_mutators(ctx)
    ctx.check('tree_store::btree_mutator::MutateHelper::<\'a, \'b, K, V>::insert_inplace_helper' in sg or any('insert_inplace_helper' in x for x in sg),
              'floor|self-guarding', 'insert_inplace_helper is recognised as self-guarding (asserts uncommitted before memory_mut)')
    exceptions = {'UntypedBtreeMut::relocate_helper': 'target pages come from the compaction map: freshly allocated by compact_pages in the same transaction',
                  'multimap_btree::relocate_subtrees': 'same as relocate_helper, for multimap subtrees'}
    total = 0
    seen_exc = set()
    for path, sites in sorted(ctx.facts.callers_of(PA + '::get_page_mut', root=False).items()):
        f = ctx.facts.fns[path]
        exc = [e for e in exceptions if core.name_matches(e, f.names)]
        edges = core.guard_edges(f, [true_of(PA + '::uncommitted')])
        r = core.reach(f, cut_edges=edges) if edges else None
        for c in sites:
            total += 1
            if exc:
                seen_exc.add(exc[0])
                ctx._ob(True, ctx.sample('exception', f, c.line, 'listed exception: ' + exceptions[exc[0]]))
                continue
            guarded = r is not None and c.bb not in r['term']
            via = None
            if not guarded:
                # (ii) result handed directly to a self-guarding mutator
                for c2 in f.calls:
                    if c2.callee in sg:
                        for a in c2.t['a']:
                            if a[0] in ('c', 'm'):
                                _l, cl, _a, _k = core.flow_sources(f, a)
                                if c.bb in cl:
                                    via = c2
                if via is not None:
                    # and not mutated here
                    for m in f.calls_to('PageMut::memory_mut'):
                        _l, cl, _a, _k = core.flow_sources(f, m.t['a'][0])
                        if c.bb in cl:
                            # mutated locally as well: only fine if that is itself guarded
                            if r is None or m.bb in r['term']:
                                via = None
            okk = guarded or via is not None
            if guarded:
                # same-subject refinement (precision only)
                S_ = core.sym(f)
                tgt = S_.describe(S_.operand(c.t['a'][1]))
                subj = set()
                for (gb, si) in edges:
                    for fa in core.edge_facts(f, gb)[si]:
                        if fa.kind == 'call' and fa.call.matches(PA + '::uncommitted'):
                            subj.add(S_.describe(S_.operand(fa.call.t['a'][1])))
                if tgt not in subj:
                    ctx.unmatched_subject += 1
            ctx._ob(okk, ctx.sample('guard', f, c.line, 'get_page_mut %s' % ('behind uncommitted() true-edge' if guarded else ('handed to self-guarding %s' % (via.callee if via else '?')))))
            if not okk:
                path_ = core.path_lines(f, core.find_path(f, c.bb, cut_edges=edges))
                ctx.violate('cow|%s|get_page_mut' % f.path,
                            'copy-on-write: PageAllocator::get_page_mut reachable without an uncommitted() true-edge, not handed to a self-guarding mutator, and not a listed relocation site', f, c.line, path_)
    ctx.check(total >= 14, 'floor|get_page_mut-sites', 'at least the 14 confirmed get_page_mut call sites were analysed (found %d)' % total)
    for e in exceptions:
        ctx.check(e in seen_exc, 'floor|exception|%s' % e, 'listed exception %s still exists' % e)

    ctx.set_rule('C01.R5c', 'direct PageAllocator::free in btree code only for pages allocated by this transaction')
    n = 0
    for path, sites in sorted(ctx.facts.callers_of(PA + '::free', root=False).items()):
        f = ctx.facts.fns[path]
        if 'btree' not in f.file and 'multimap' not in f.file and 'table_tree' not in f.file:
            continue
        pts = [cpoint(c) for c in sites]
        n += len(pts)
        ctx.guarded(f, pts, [true_of(PA + '::uncommitted')], 'direct free only behind uncommitted() == true')
    ctx.check(n >= 3, 'floor|btree-free-sites', 'the 3 confirmed direct free sites in btree code were analysed (found %d)' % n)

    ctx.set_rule('C01.R5e', 'a page is queued on the freed list only if it is committed (the uncommitted ones are freed at once)')
    total = 0
    unguarded = []
    for f in ctx.facts.fn_list:
        if not f.file.endswith('btree_mutator.rs'):
            continue
        S_ = core.sym(f)
        pushes = [c for c in f.calls_to('Vec::push') if c.t['a'] and S_.describe(S_.operand(c.t['a'][0])).endswith('.freed')]
        if not pushes:
            continue
        edges = core.guard_edges(f, [false_of(PA + '::uncommitted')])
        r = core.reach(f, cut_edges=edges)
        for c in pushes:
            total += 1
            g = bool(edges) and c.bb not in r['term']
            if not g:
                unguarded.append((f, c))
            ctx._ob(True, ctx.sample('guard', f, c.line, 'freed.push %s' % ('behind uncommitted()==false' if g else 'UNGUARDED')))
    ctx.per_rule[ctx.rule]['sites'] += total
    ctx.check(total >= 4, 'floor|freed-push-sites', 'direct freed.push sites in btree_mutator examined: %d' % total)
    # the single confirmed exception: the same-size replacement in insert_helper, which only a committed
    # page can reach (an uncommitted page with an unchanged value length always takes the in-place path)
    exc = [x for x in unguarded if core.name_matches('MutateHelper::insert_helper', x[0].names)]
    other = [x for x in unguarded if x not in exc]
    ctx.check(len(exc) <= 1, 'cow|insert_helper|freed.push', 'at most the one confirmed unguarded freed.push (same-size replacement) in insert_helper, found %d' % len(exc), exc[0][0] if exc else None, exc[0][1].line if exc else None)
    ctx.check(not other, 'cow|%s|freed.push' % (other[0][0].path if other else ''), 'every other direct freed.push in btree_mutator is behind uncommitted() == false', other[0][0] if other else None, other[0][1].line if other else None)

    ctx.set_rule('C01.R5f', 'mutable value guards and cursor free lists respect the committed/uncommitted split')
    f = ctx.fn('AccessGuardMut::new')
    if f is not None:
        aggs = []
        for i, b_ in enumerate(f.blocks):
            for j, s_ in enumerate(b_['s']):
                if s_[0] == 'a' and s_[2]['k'] == 'agg' and s_[2]['a'].endswith('AccessGuardMut'):
                    aggs.append(Point(f, i, j, 'construct AccessGuardMut', s_[3]))
        ctx.check(len(aggs) == 1, 'floor|%s|construct' % f.path, 'AccessGuardMut::new constructs the guard once', f, f.line)
        ctx.guarded(f, aggs, [true_of(PA + '::uncommitted')], 'a mutable value guard exists only over an uncommitted page (assert!)')
        ctx.sites(f, PA + '::uncommitted', exact=2)
    constructors_eq(ctx, 'AccessGuardMut', {'AccessGuardMut::new'})
    f = ctx.fn('CursorTree::drain_freed')
    if f is not None:
        fu = ctx.sites(f, PA + '::free_if_uncommitted', exact=1)
        pu = ctx.sites(f, 'Vec::push', exact=1)
        ctx.guarded(f, pu, [false_of(PA + '::free_if_uncommitted')], 'only committed pages are queued on the shared freed list')
        nxt = [c for c in f.calls if c.matches('Iterator::next')]
        e_none = core.guard_edges(f, [Guard(call='Iterator::next', vals={'None'})])
        for n_ in nxt:
            r = core.reach(f, start=(n_.bb, len(f.blocks[n_.bb]['s']) - 1), cut_edges=e_none, cut_blocks={p_.bb for p_ in fu})
            looped = any(f.succ(bb_)[si_][0] == n_.bb for (bb_, si_) in r['edges'])
            fin = any(rb in r['term'] for rb in f.ret_blocks())
            ctx.check(not (looped or fin), 'must-pass|%s|drained-page-skipped' % f.path, 'every page drained from the cursor free list is either freed (uncommitted) or queued (committed)', f, n_.line)

    ctx.set_rule('C01.R5d', 'unsafe inventory: owners of unsafe blocks are the confirmed ones')
    allowed = {
        'PageList::from_bytes_mut': 'transmute of a byte slice to the in-place PageList view (values, not pages of other snapshots)',
        'DynamicCollection::new': 'transmute &[u8] -> &DynamicCollection (repr(transparent))',
        'UntypedDynamicCollection::new': 'transmute &[u8] -> &UntypedDynamicCollection (repr(transparent))',
    }
    for u in ctx.facts.unsafe_blocks:
        o = u['owner']
        if '::xxh3::' in o or 'sync::spin::' in o:
            # hashing kernels (SIMD intrinsics) and the no_std spin-lock guards: neither touches page buffers
            ctx._ob(True)
            continue
        okk = any(core.name_matches(a, core.alt_names(o)) for a in allowed)
        ctx._ob(okk, {'rule': ctx.rule, 'cfg': ctx.cfg, 'kind': 'unsafe', 'what': 'unsafe block in %s (%s:%s)' % (o, u['f'], u['l'])})
        if not okk:
            ctx.violate('new-unsafe|%s' % o, 'new unsafe block in `%s` at %s:%s -- confirm it cannot alias committed page bytes mutably and add it to the table' % (o, u['f'], u['l']))
    for f in ctx.facts.fn_list:
        if f.d.get('unsafe') and '::xxh3::' not in f.path and 'sync::spin::' not in f.path:
            ctx.check(False, 'new-unsafe-fn|%s' % f.path, 'new unsafe fn `%s`' % f.path, f, f.line)


# ------------------------------------------------------------------------------------ C02.R6
GUARD_ADT = 'db::TransactionGuard'
PAGE_HOLDERS = ('tree_store::page_store::base::PageImpl', 'tree_store::page_store::page_manager::PageResolver', 'tree_store::btree_cursor_range::BtreeCursorRange')


def c02_r6_guard_ownership(ctx):
    ctx.set_rule('C02.R6', 'everything that can read pages later owns the transaction guard, and drops its pages first')
    facts = ctx.facts
    memo_pages = {}
    memo_guard = {}

    def holds_pages(p):
        return core.adt_contains(facts, p, lambda t: t in PAGE_HOLDERS, None, memo_pages) or p in PAGE_HOLDERS

    def holds_guard(p):
        return core.adt_contains(facts, p, lambda t: t == GUARD_ADT, None, memo_guard)

    exceptions = {
        'db::Database': 'the database handle itself; reads go through transactions',
        'db::ReadOnlyDatabase': 'the database handle itself',
        'transactions::WriteTransaction': 'owns the write guard (Arc<TransactionGuard>) -- listed for clarity',
        'transactions::ReadTransaction': 'owns the guard through TableTree',
        'db::Builder': 'no pages',
    }
    n = 0
    for p, a in sorted(facts.adts.items()):
        if not a.get('reach') or a['lt']:
            continue
        if not holds_pages(p):
            continue
        n += 1
        okk = holds_guard(p) or p in exceptions
        ctx._ob(okk, {'rule': ctx.rule, 'cfg': ctx.cfg, 'kind': 'type', 'what': 'public lifetime-free type %s holds pages and %s' % (p, 'owns the guard' if holds_guard(p) else 'is a listed exception')})
        if not okk:
            ctx.violate('guardless|%s' % p, 'public type `%s` has no lifetime parameter, transitively holds pages (PageImpl/PageResolver/BtreeCursorRange) but does not own an Arc<TransactionGuard>: it can read pages after its read transaction ended' % p)
    ctx.check(n >= 8, 'floor|guard-owning-types', 'at least 8 public lifetime-free page-holding types were examined (found %d)' % n)
    # (b) the named owned types contain the guard
    named = ['table::ReadOnlyTable', 'multimap_table::ReadOnlyMultimapTable', 'table::Range', 'multimap_table::MultimapValue', 'multimap_table::MultimapRange']
    for t in named:
        a = facts.adts.get(t)
        ctx.check(a is not None and holds_guard(t), 'guard-missing|%s' % t, 'type %s owns an Arc<TransactionGuard>' % t)
    # (c) field order: page-holding fields are declared (dropped) before the guard field
    for p, a in sorted(facts.adts.items()):
        if a['k'] != 'struct':
            continue
        fields = a['variants'][0]['fields']
        gidx = [i for i, f in enumerate(fields) if GUARD_ADT in f['adts'] and 'Arc' in f['ty']]
        if not gidx:
            continue
        gi = gidx[0]
        for i, f in enumerate(fields):
            if i <= gi:
                continue
            hp = any((t in PAGE_HOLDERS) or (t in facts.adts and holds_pages(t)) for t in f['adts'])
            if hp:
                # a Drop impl that clears the pages first is the alternative
                okk = a['drop']
                ctx._ob(okk, {'rule': ctx.rule, 'cfg': ctx.cfg, 'kind': 'field-order', 'what': '%s.%s declared after the guard' % (p, f['n'])})
                if not okk:
                    ctx.violate('field-order|%s|%s' % (p, f['n']), 'field `%s` of `%s` holds pages but is declared after the transaction guard field `%s` (Rust drops fields in declaration order: the guard would be released before the pages)' % (f['n'], p, fields[gi]['n']))
            else:
                ctx._ob(True)
    # (d) the guard's Drop deregisters
    g = ctx.fn('<TransactionGuard as Drop>::drop')
    if g is not None:
        dr = ctx.sites(g, TT + '::deallocate_read_transaction', exact=1)
        ew = ctx.sites(g, TT + '::end_write_transaction', exact=1)
        ctx.guarded(g, dr, [Guard(place='self', vals={'Read'})], 'Read guards deregister the read')
        e_other = core.guard_edges(g, [Guard(place='self', vals={'Write', 'Untracked'}), Guard(place='self', vals={'Write'}), Guard(place='self', vals={'Untracked'})])
        ctx.must_pass(g, dr, exits='any', extra_cut_edges=e_other, what='dropping a Read guard always deregisters it')
        e_other = core.guard_edges(g, [Guard(place='self', vals={'Read', 'Untracked'}), Guard(place='self', vals={'Read'}), Guard(place='self', vals={'Untracked'})])
        ctx.must_pass(g, ew, exits='any', extra_cut_edges=e_other, what='dropping a Write guard always ends the write transaction')
    f = ctx.fn(TT + '::deallocate_read_transaction')
    if f is not None:
        ctx.held(f, ctx.sites(f, 'BTreeMap::get_mut', exact=1), 'self.state')


# ------------------------------------------------------------------------------------ C03
TTSTATE = ['self.state', 'ty:State']


def c03_r1_write_slot(ctx):
    ctx.set_rule('C03.R1', 'single write slot: acquired under the tracker lock, only when free; released with a wake-up')
    f = ctx.fn(TT + '::start_write_transaction')
    if f is not None:
        st = ctx.stores(f, 'live_write_transaction', owner='State')
        ctx.guarded(f, st, [Guard(place='live_write_transaction', vals={'None'})], 'slot taken only when it is free')
        w = ctx.sites(f, 'Condvar::wait', exact=1)
        ctx.guarded(f, w, [Guard(place='live_write_transaction', vals={'Some'})], 'waits while the slot is taken')
        inc = ctx.sites(f, 'TransactionId::increment', exact=1)
        ctx.held(f, st + inc, TTSTATE)
        ctx.order(f, inc, st)
        for s_ in st:
            rv = s_.fn.blocks[s_.bb]['s'][s_.idx][2]
            okk = False
            if rv['k'] == 'use':
                okk = core.flows_from_call(f, rv['o'], 'TransactionId::increment')
            elif rv['k'] == 'agg':
                okk = any(core.flows_from_call(f, o, 'TransactionId::increment') for o in rv['o'])
            ctx.check(okk, 'flow|%s|slot-id' % f.path, 'the slot holds the freshly incremented transaction id', f, s_.line)
        ctx.sites(f, 'Mutex::lock', exact=1)
    f = ctx.fn(TT + '::end_write_transaction')
    if f is not None:
        st = ctx.stores(f, 'live_write_transaction', owner='State')
        no = ctx.sites(f, 'Condvar::notify_one', exact=1)
        tk = ctx.sites(f, 'Option::take', exact=1)
        ctx.held(f, st + no + tk, TTSTATE)
        ctx.must_pass(f, no, exits='any', what='ending the write transaction always wakes a waiter')
        ctx.sites(f, 'Mutex::lock', exact=1)
        ctx.order(f, st, no)
    ctx.callers_eq(TT + '::start_write_transaction', {'begin_write_with_allocation_policy'})
    ctx.callers_eq(TT + '::end_write_transaction', {'<TransactionGuard as Drop>::drop'})
    # stores to the slot are confined to the two functions
    own = set()
    for f_ in ctx.facts.fn_list:
        for b in f_.blocks:
            for s_ in b['s']:
                if s_[0] == 'a' and s_[1][1] and s_[1][1][-1] == '.live_write_transaction':
                    own.add(ctx.facts.root_of(f_).path)
    exp = {TT + '::start_write_transaction', TT + '::end_write_transaction'}
    for p in sorted(own):
        ctx.check(any(core.name_matches(e, core.alt_names(p)) for e in exp), 'new-writer|live_write_transaction|%s' % p, '`%s` stores to State.live_write_transaction' % p)


def c03_r2_slot_before_roots(ctx):
    ctx.set_rule('C03.R2', 'write slot acquired and failure re-checked before the transaction captures its roots')
    f = ctx.fn('begin_write_with_allocation_policy')
    if f is None:
        return
    sw = ctx.sites(f, TT + '::start_write_transaction', exact=1)
    nw = ctx.sites(f, WT + '::new', exact=1)
    ci = ctx.sites(f, TM + '::check_io_errors', exact=2)
    ctx.order(f, sw, nw, 'slot before WriteTransaction::new')
    ctx.guarded(f, nw, [true_of(TM + '::allocator_state_loaded')], 'no write transaction without an allocator state')
    ctx.guarded(f, sw, [ok(TM + '::check_io_errors')], 'no slot after an I/O failure')
    if sw:
        edges = core.guard_edges(f, [ok(TM + '::check_io_errors')])
        r = core.reach(f, start=(sw[0].bb, sw[0].idx), cut_edges=edges)
        hit = bool(nw) and nw[0].bb in r['term']
        ctx._ob(not hit, ctx.sample('guard', f, sw[0].line, 'after acquiring the slot, WriteTransaction::new only through a second check_io_errors Ok edge'))
        if hit:
            ctx.violate('guard|%s|recheck-io' % f.path, 'WriteTransaction::new reachable after start_write_transaction without re-checking check_io_errors', f, nw[0].line)
    g = ctx.fn(WT + '::new')
    if g is not None:
        ctx.sites(g, TM + '::get_data_root', exact=1)
        ctx.sites(g, TM + '::get_system_root', exact=1)
    ctx.callers_eq(WT + '::new', {'begin_write_with_allocation_policy'})
    ctx.callers_eq('begin_write_with_allocation_policy', {'Database::begin_write', 'ensure_allocator_state_table_and_trim'})


def c03_r3_publication_owners(ctx):
    ctx.set_rule('C03.R3', 'root publication: frozen owners, under the state lock')
    ctx.callers_eq('DatabaseHeader::write_secondary_slot', {TM + '::commit', TM + '::non_durable_commit'})
    ctx.callers_eq('DatabaseHeader::swap_primary_slot', {TM + '::commit', TM + '::repair_primary_corrupted', 'UnrepairedDatabaseHeader::select_primary_slot'})
    for field, exp in (('header', {TM + '::commit', TM + '::clear_cache_and_reload'}),
                       ('read_from_secondary', {TM + '::commit', TM + '::non_durable_commit', TM + '::clear_cache_and_reload'}),
                       ('allocators', {TM + '::clear_cache_and_reload', TM + '::reset_allocator_state', TM + '::invalidate_allocator_state', TM + '::load_allocator_state'})):
        own = {}
        for f_ in ctx.facts.fn_list:
            for i, b in enumerate(f_.blocks):
                for j, s_ in enumerate(b['s']):
                    if s_[0] == 'a' and s_[1][1] and s_[1][1][-1] == '.' + field and len(s_) > 4 and s_[4] and s_[4].endswith('InMemoryState'):
                        own.setdefault(ctx.facts.root_of(f_).path, []).append(Point(f_, i, j, 'store InMemoryState.' + field, s_[3]))
        matched = set()
        for p, pts in sorted(own.items()):
            hit = [e for e in exp if core.name_matches(e, core.alt_names(p))]
            ctx._ob(bool(hit), ctx.sample('store-owner', pts[0].fn, pts[0].line, '%s stores InMemoryState.%s' % (p, field)))
            matched.update(hit)
            if not hit:
                ctx.violate('new-writer|InMemoryState.%s|%s' % (field, p), '`%s` stores to InMemoryState.%s (confirmed writers: %s)' % (p, field, sorted(exp)), pts[0].fn, pts[0].line)
            else:
                f_ = pts[0].fn
                # under the lock, or through &mut self (exclusive)
                excl = f_.d.get('params', [''])[0].startswith('&mut ')
                if not excl:
                    held_at_stores(ctx, f_, pts, 'self.state')
        for e in exp:
            ctx.check(e in matched, 'lost-writer|InMemoryState.%s|%s' % (field, e), 'confirmed writer %s of InMemoryState.%s still exists' % (e, field))


def c03_r4_no_publish_on_abort(ctx):
    ctx.set_rule('C03.R4', 'abort / drop / poisoned commit cannot publish')
    ctx.no_reach([WT + '::abort_inner', WT + '::abort', '<WriteTransaction as Drop>::drop'], [TM + '::commit', TM + '::non_durable_commit', WT + '::commit_inner', WT + '::durable_commit'])
    f = ctx.fn(WT + '::commit')
    if f is not None:
        ci = ctx.sites(f, WT + '::commit_inner', exact=1)
        ab = ctx.sites(f, WT + '::abort_inner', exact=1)
        ctx.guarded(f, ci, [false_of(WT + '::is_poisoned')], 'commit_inner only when not poisoned')
        ctx.guarded(f, ab, [true_of(WT + '::is_poisoned')], 'rollback on the poisoned arm')
        e_false = core.guard_edges(f, [false_of(WT + '::is_poisoned')])
        ctx.must_pass(f, ab, exits='any', extra_cut_edges=e_false, what='a poisoned commit always rolls back')
        # the poisoned arm cannot return Ok: success exits there = none
        r = core.reach(f, cut_edges=e_false, cut_blocks=core.error_blocks(f))
        okk = not any(rb in r['term'] for rb in f.ret_blocks())
        ctx.check(okk, 'must-pass|%s|poisoned-returns-err' % f.path, 'the poisoned arm of commit() never returns Ok', f, f.line)
        st = ctx.stores(f, 'completed', owner='WriteTransaction', value=True)
        ctx.order(f, st, ci + ab, 'completed flag set first (Drop will not roll back again)')
    ctx.callers_eq(WT + '::commit_inner', {WT + '::commit'})
    ctx.callers_eq(WT + '::commit_inner_helper', {WT + '::commit_inner'})
    ctx.callers_eq(WT + '::durable_commit', {WT + '::commit_inner_helper'})
    ctx.callers_eq(WT + '::non_durable_commit', {WT + '::commit_inner_helper'})
    g = ctx.fn(WT + '::is_poisoned')
    if g is not None:
        ctx.atomic_sites(g, 'load', 'self.poisoned', exact=1)
    g = ctx.fn(WT + '::poison')
    if g is not None:
        ctx.atomic_sites(g, 'store', 'self.poisoned', exact=1, value=True)
    # nobody un-poisons
    bad = []
    for f_ in ctx.facts.fn_list:
        S_ = core.sym(f_)
        for c in f_.calls_to('Atomic::store'):
            d = S_.describe(S_.operand(c.t['a'][0])) if c.t['a'] else ''
            if d.endswith('.poisoned') and 'WriteTransaction' in (f_.d.get('self_ty') or f_.path):
                a = c.t['a'][1]
                if not (a[0] == 'k' and a[2] is True):
                    bad.append((f_, c))
    ctx.check(not bad, 'unpoison', 'no store of a non-true value to WriteTransaction.poisoned', bad[0][0] if bad else None, bad[0][1].line if bad else None)


def c03_r6_deferred_close(ctx):
    ctx.set_rule('C03.R6', 'deferred close handoff is atomic with the write slot')
    f = ctx.fn(TT + '::defer_close_if_write_transaction_live')
    if f is not None:
        st = ctx.stores(f, 'deferred_close', owner='State')
        ctx.guarded(f, st, [Guard(place='live_write_transaction', vals={'Some'})], 'close deferred only while a write transaction is live')
        ctx.held(f, st, TTSTATE)
        ctx.sites(f, 'Mutex::lock', exact=1)
        # returns true exactly on that arm: `_0 = const true` only behind the Some edge
        rets = []
        for i, b in enumerate(f.blocks):
            for j, s_ in enumerate(b['s']):
                if s_[0] == 'a' and s_[1][0] == 0 and not s_[1][1] and s_[2]['k'] == 'use' and s_[2]['o'][0] == 'k' and s_[2]['o'][2] is True:
                    rets.append(Point(f, i, j, 'return true', s_[3]))
        ctx.guarded(f, rets, [Guard(place='live_write_transaction', vals={'Some'})], 'returns true only when the close was handed over')
        ctx.check(len(rets) >= 1, 'floor|%s|return-true' % f.path, 'a `true` return exists', f, f.line)
    g = ctx.fn('<Database as Drop>::drop')
    if g is not None:
        cd = ctx.sites(g, 'close_database', exact=1)
        ctx.guarded(g, cd, [false_of(TT + '::defer_close_if_write_transaction_live')], 'Database::drop closes only if no write transaction took the close over')
        e_true = core.guard_edges(g, [true_of(TT + '::defer_close_if_write_transaction_live')])
        ctx.must_pass(g, cd, exits='any', extra_cut_edges=e_true, what='without a live write transaction Database::drop always closes')
    g = ctx.fn('<TransactionGuard as Drop>::drop')
    if g is not None:
        cd = ctx.sites(g, 'close_database', exact=1)
        ctx.guarded(g, cd, [Guard(call=TT + '::end_write_transaction', vals={'Some'})], 'the write guard closes only when the close was deferred to it')
        e_none = core.guard_edges(g, [Guard(call=TT + '::end_write_transaction', vals={'None'})])
        ew = ctx.sites(g, TT + '::end_write_transaction', exact=1)
        ctx.must_pass(g, cd, start=ew[0] if ew else None, exits='any', extra_cut_edges=e_none, what='a deferred close is always performed')
    ctx.callers_eq(TT + '::defer_close_if_write_transaction_live', {'<Database as Drop>::drop'})


# ------------------------------------------------------------------------------------ C05
def c05_r1_abort_path(ctx):
    ctx.set_rule('C05.R1', 'abort path completeness and order')
    f = ctx.fn(WT + '::abort_inner_impl')
    if f is not None:
        a = ctx.sites(f, 'TableTreeMut::clear_root_updates_and_close', exact=1)
        b = ctx.sites(f, 'SavepointTransactionState::apply_on_abort', exact=1)
        c = ctx.sites(f, PA + '::rollback_all', exact=1)
        ctx.order(f, a, b)
        ctx.order(f, b, c)
        for x in (a, b, c):
            ctx.must_pass(f, x, what='every successful abort passes %s' % (x[0].desc if x else '?'))
    f = ctx.fn(PA + '::rollback_all')
    if f is not None:
        tk = ctx.sites(f, PA + '::take_allocated_since_commit', exact=1)
        fr = ctx.sites(f, TM + '::free', exact=1)
        ctx.must_pass(f, tk, exits='any')
        for p in fr:
            ctx.flows(f, p, 1, from_call=PA + '::take_allocated_since_commit', what='rollback frees the drained allocations')
    ctx.set_rule('C05.R2', 'leak latch around the rollback')
    f = ctx.fn(WT + '::abort_inner')
    if f is not None:
        mk = ctx.sites(f, TM + '::mark_needs_repair', exact=1)
        im = ctx.sites(f, WT + '::abort_inner_impl', exact=1)
        cl = ctx.sites(f, TM + '::clear_needs_repair', exact=1)
        ctx.order(f, mk, im, 'leak latched before the rollback starts')
        ctx.guarded(f, cl, [ok(WT + '::abort_inner_impl')], 'latch cleared only after a complete rollback')
        ctx.guarded(f, cl, [false_of(TM + '::needs_repair')], 'latch cleared only if it was not set before')
        nr = ctx.sites(f, TM + '::needs_repair', exact=1)
        ctx.order(f, nr, mk, 'previous latch state read before it is set')
    ctx.set_rule('C05.R3', 'every allocation is recorded for rollback')
    for nm, callee in ((PA + '::allocate', [TM + '::allocate', TM + '::allocate_lowest']), (PA + '::allocate_lowest', [TM + '::allocate_lowest'])):
        f = ctx.fn(nm)
        if f is not None:
            al = ctx.sites(f, callee, floor=1)
            ins = ctx.sites(f, 'UncommittedPages::insert', exact=1)
            for a in al:
                ctx.must_pass(f, ins, start=a, what='every success path after the allocation records the page in allocated_since_commit')
            for p in ins:
                ctx.flows(f, p, 1, from_call=callee)
    f = ctx.fn(PA + '::adopt_unpersisted')
    if f is not None:
        cu = ctx.sites(f, TM + '::claim_unpersisted', exact=1)
        ins = ctx.sites(f, 'UncommittedPages::insert', exact=1)
        ctx.guarded(f, ins, [true_of(TM + '::claim_unpersisted')], 'adopted only when claimed from the unpersisted set')
    f = ctx.fn(PA + '::free')
    if f is not None:
        rm_ = ctx.sites(f, 'UncommittedPages::remove', exact=1)
        fr_ = ctx.sites(f, TM + '::free', exact=1)
        ctx.order(f, rm_, fr_, 'a page leaves the transaction\'s uncommitted set before it is handed back to the allocator (another thread may be given it at once)')
    f = ctx.fn(PA + '::free_if_uncommitted')
    if f is not None:
        rm_ = ctx.sites(f, 'UncommittedPages::remove', exact=1)
        fr_ = ctx.sites(f, TM + '::free', exact=1)
        ctx.order(f, rm_, fr_)
    ctx.callers_eq('UncommittedPages::insert', {PA + '::allocate', PA + '::allocate_lowest', PA + '::adopt_unpersisted'})
    ctx.callers_eq('UncommittedPages::take_all', {PA + '::take_allocated_since_commit'})
    ctx.callers_eq(PA + '::take_allocated_since_commit', {PA + '::rollback_all', WT + '::durable_commit', WT + '::non_durable_commit', WT + '::process_data_freed_pages_after_commit'})


def c05_r4_poison(ctx):
    ctx.set_rule('C05.R4', 'partial failure poisons the transaction')
    n = 0
    f = ctx.fn(WT + '::restore_savepoint')
    if f is not None:
        po = ctx.sites(f, WT + '::poison', exact=1)
        ri = ctx.sites(f, WT + '::restore_savepoint_inner', exact=1)
        ctx.guarded(f, po, [err(WT + '::restore_savepoint_inner')])
        e_ok = core.guard_edges(f, [ok(WT + '::restore_savepoint_inner')])
        ctx.must_pass(f, po, start=ri[0] if ri else None, exits='any', extra_cut_edges=e_ok, what='a failed restore always poisons')
        n += 1
    for nm, inner in (('rename_table', 'inner_rename'), ('rename_multimap_table', 'inner_rename'), ('delete_table', 'inner_delete'), ('delete_multimap_table', 'inner_delete')):
        f = ctx.fn('TableNamespace::' + nm)
        if f is None:
            continue
        ic = ctx.sites(f, 'TableNamespace::' + inner, exact=1)
        if not f.calls_to(WT + '::poison'):
            # `Self::poison_on_error(transaction, result)`: the test and the poison extracted into
            # a helper that receives the catalog operation's result
            import rulekit as _rk
            via, g = None, None
            for c in f.calls:
                if f.blocks[c.bb]['c'] or not c.callee or _rk._is_named_anchor(c.callee):
                    continue
                g_ = ctx.facts.fns.get(c.callee)
                if g_ is not None and g_.calls_to(WT + '::poison') and any(a[0] != 'k' and core.flows_from_call(f, a, 'TableNamespace::' + inner) for a in c.t['a']):
                    via, g = cpoint(c), g_
                    break
            ok_ = via is not None
            ctx._ob(ok_, ctx.sample('sites', f, f.line, 'the result of %s is handed to a poisoning helper' % inner))
            if not ok_:
                ctx.violate('floor|%s|WriteTransaction::poison' % f.path, 'expected exactly 1 call site(s) of `WriteTransaction::poison` (or of a helper that receives the result of %s and poisons), found 0' % inner, f, f.line)
                continue
            ctx.must_pass(f, [via], start=ic[0] if ic else None, exits='any', what='the result of %s always reaches the poisoning helper' % inner)
            pname = None
            for ai, a in enumerate(via.call.t['a']):
                if a[0] != 'k' and core.flows_from_call(f, a, 'TableNamespace::' + inner):
                    pname = g.local_name(ai + 1)
            po_g = ctx.sites(g, WT + '::poison', exact=1)
            ctx.guarded(g, po_g, [Guard(place=pname or 'result', vals={'Err'})])
            e_skip = core.guard_edges(g, [Guard(place=pname or 'result', vals={'Ok'})])
            other = set()
            for bb in range(g.nb):
                if g.blocks[bb]['t']['k'] != 'sw':
                    continue
                for si, fs in enumerate(core.edge_facts(g, bb)):
                    for fa in fs:
                        if fa.kind == 'place' and fa.desc.endswith('@Err.0') and fa.vals and 'Storage' not in fa.vals:
                            other.add((bb, si))
            ctx.must_pass(g, po_g, exits='any', extra_cut_edges=e_skip | other, what='a storage error in %s always poisons' % nm)
            n += 1
            continue
        po = ctx.sites(f, WT + '::poison', exact=1)
        ctx.guarded(f, po, [err('TableNamespace::' + inner)])
        # on Err(Storage) the poison is not skippable: cut the Ok edge and every non-Storage edge
        e_skip = core.guard_edges(f, [ok('TableNamespace::' + inner)])
        storage_other = set()
        for bb in range(f.nb):
            if f.blocks[bb]['t']['k'] != 'sw':
                continue
            for si, fs in enumerate(core.edge_facts(f, bb)):
                for fa in fs:
                    if fa.kind == 'call' and fa.call.matches('TableNamespace::' + inner) and 'Storage' not in fa.vals and fa.vals and not (fa.vals & {'Ok', 'Err'}):
                        storage_other.add((bb, si))
        # the discriminant of the error payload: place fact `call:inner@Err.0` in variants
        for bb in range(f.nb):
            if f.blocks[bb]['t']['k'] != 'sw':
                continue
            for si, fs in enumerate(core.edge_facts(f, bb)):
                for fa in fs:
                    if fa.kind == 'place' and fa.desc.endswith('@Err.0') and fa.vals and 'Storage' not in fa.vals:
                        storage_other.add((bb, si))
        ctx.must_pass(f, po, start=ic[0] if ic else None, exits='any', extra_cut_edges=e_skip | storage_other, what='a storage error in %s always poisons' % nm)
        n += 1
    f = ctx.fn('Table::retain_in_bounds')
    if f is not None:
        pg = ctx.sites(f, 'RetainPanicGuard::new', exact=1)
        rb = ctx.sites(f, 'BtreeMut::retain_in_bounds', exact=1)
        po = ctx.sites(f, WT + '::poison', exact=1)
        ctx.order(f, pg, rb, 'panic guard armed before the predicate can run')
        ctx.guarded(f, po, [Guard(place='poisoned', vals={'true'})])
        e_f = core.guard_edges(f, [Guard(place='poisoned', vals={'false'})])
        ctx.must_pass(f, po, start=rb[0] if rb else None, exits='any', extra_cut_edges=e_f, what='a half-applied retain always poisons')
        n += 1
    f = ctx.fn('<RetainPanicGuard as Drop>::drop')
    if f is not None:
        po = ctx.sites(f, WT + '::poison', exact=1)
        ctx.guarded(f, po, [true_of('panicking')])
        e_skip = core.guard_edges(f, [false_of('panicking'), Guard(place='self.disarmed', vals={'true'})])
        ctx.must_pass(f, po, exits='any', extra_cut_edges=e_skip, what='an armed guard dropped while panicking always poisons')
        n += 1
    f = ctx.fn('<ExtractIf as Drop>::drop')
    if f is not None:
        po = ctx.sites(f, WT + '::poison', exact=1)
        ctx.guarded(f, po, [true_of('BtreeExtractIf::close_failed'), true_of('BtreeExtractIf::predicate_panicked')])
        n += 1
    if ctx.cfg == 'A' or ctx.has_fn('table::CursorMut::finish'):
        for nm, gs in (('latch_error', [true_of('BtreeCursorMut::poisoned')]), ('finish', [err('BtreeCursorMut::finish'), true_of('BtreeCursorMut::poisoned')])):
            fs = [x for x in ctx.facts.find_fns('CursorMut::' + nm) if x.file.endswith('table.rs')]
            if len(fs) == 1:
                po = ctx.sites(fs[0], WT + '::poison', exact=1)
                ctx.guarded(fs[0], po, gs)
                n += 1
    # a panicking predicate is detected through a flag that is set across the call: in every
    # BtreeExtractIf method that invokes the caller's predicate, `predicate_running = true` is stored
    # before the call and `= false` after it; predicate_panicked() reads that flag
    m = 0
    for f in ctx.facts.fn_list:
        if 'extract_if::BtreeExtractIf' not in f.path:
            continue
        pc = [c for c in f.calls if c.declared and c.declared.split('::')[-1] in ('call_mut', 'call_once', 'call') and c.resolved is None]
        if not pc:
            continue
        m += 1
        pts = [cpoint(c, 'call of the user predicate') for c in pc]
        st_t = ctx.stores(f, 'predicate_running', value=True)
        st_f = ctx.stores(f, 'predicate_running', value=False)
        ctx.order(f, st_t, pts, 'predicate_running = true is stored before the predicate runs')
        for p_ in pts:
            ctx.must_pass(f, st_f, start=p_, exits='any', what='predicate_running is reset after the predicate returned')
            # and no reset between the set and the call
            if st_t:
                r_ = core.reach(f, start=(st_t[0].bb, st_t[0].idx), cut_points={(q.bb, q.idx) for q in st_f})
                ctx.check(p_.bb in r_['term'], 'order|%s|flag-live-at-call' % f.path, 'the flag is still set when the predicate is called', f, p_.line)
    ctx.check(m >= 2, 'floor|predicate-call-sites', 'BtreeExtractIf methods calling the user predicate: %d' % m)
    g = ctx.fn('BtreeExtractIf::predicate_panicked')
    if g is not None:
        rl, _c, _a, _k = core.flow_sources(g, 0)
        S_ = core.sym(g)
        okk = any(st[0] == 'a' and st[1][0] == 0 and st[2]['k'] == 'use' and st[2]['o'][0] in ('c', 'm') and st[2]['o'][1][1] and st[2]['o'][1][1][-1] == '.predicate_running' for b in g.blocks for st in b['s'])
        ctx.check(okk, 'flow|%s' % g.path, 'predicate_panicked() returns the predicate_running flag', g, g.line)
    n += 1 if m >= 2 else 0
    ctx.check(n >= 7, 'floor|poison-sites', 'at least 7 poison-on-partial-failure instances were analysed (found %d)' % n)
    ctx.set_rule('C05.R5', 'a poisoned transaction stages nothing')
    f = ctx.fn(WT + '::close_table')
    if f is not None:
        ct = ctx.sites(f, 'TableNamespace::close_table', exact=1)
        cw = ctx.sites(f, 'TableNamespace::close_table_without_update', exact=1)
        ctx.guarded(f, ct, [false_of(WT + '::is_poisoned')], 'table root staged only when not poisoned')
        ctx.guarded(f, cw, [true_of(WT + '::is_poisoned')])


def c05_r6_drop(ctx):
    ctx.set_rule('C05.R6', 'Drop of an uncompleted write transaction')
    f = ctx.fn('<WriteTransaction as Drop>::drop')
    if f is None:
        return
    ab = ctx.sites(f, WT + '::abort_inner', exact=1)
    ctx.guarded(f, ab, [Guard(place='self.completed', vals={'false'})], 'no rollback of a completed transaction')
    ctx.guarded(f, ab, [false_of('panicking')], 'no rollback while panicking')
    ctx.guarded(f, ab, [false_of(TM + '::storage_failure')], 'no rollback I/O after a storage failure')
    mk = ctx.sites(f, TM + '::mark_needs_repair', exact=1)
    ctx.guarded(f, mk, [Guard(place='self.completed', vals={'false'})])
    # on the !completed && no failure && !panicking path the rollback is not skippable
    e_skip = core.guard_edges(f, [Guard(place='self.completed', vals={'true'}), true_of('panicking'), true_of(TM + '::storage_failure')])
    ctx.must_pass(f, ab, exits='any', extra_cut_edges=e_skip, what='an abandoned transaction is always rolled back on drop')
    # storage-failure arm: roots cleared, no rollback_all reachable without abort_inner
    cr = ctx.sites(f, 'TableTreeMut::clear_root_updates_and_close', exact=1)
    ctx.guarded(f, cr, [true_of(TM + '::storage_failure')])
    ctx.no_direct(f, [PA + '::rollback_all', TM + '::free'], 'Drop frees nothing directly')
    # whichever arm is taken, an uncompleted transaction is dealt with: rolled back, its staged roots dropped
    # (storage failed), or -- rollback skipped while unwinding -- the leak flagged so that it cannot be
    # saved into a clean-shutdown snapshot
    e_done = core.guard_edges(f, [Guard(place='self.completed', vals={'true'})])
    ctx.must_pass(f, ab + cr + mk, exits='any', extra_cut_edges=e_done, what='an uncompleted transaction is rolled back, has its staged roots cleared, or marks the database as needing repair')


def c05_r7_savepoint_symmetry(ctx):
    ctx.set_rule('C05.R7', 'savepoint bookkeeping: abort releases created, keeps deleted; commit the reverse')
    f = ctx.fn('SavepointTransactionState::apply_on_abort')
    if f is not None:
        ctx.sites(f, TT + '::deallocate_savepoint', exact=1)
        ctx.no_direct(f, [TT + '::invalidate_savepoints'], 'abort never invalidates shared savepoints')
        dl = ctx.sites(f, TT + '::deallocate_savepoint', exact=1)
        for p in dl:
            # the released ones are the created ones
            S_ = core.sym(f)
            ls, calls, args, consts = core.flow_sources(f, p.call.t['a'][1])
            src = False
            for bb in calls:
                cs = core.CallSite(f, bb, f.blocks[bb]['t'])
                if cs.matches('mem::take') and cs.t['a']:
                    d = S_.describe(S_.operand(cs.t['a'][0]))
                    if d.endswith('created_persistent'):
                        src = True
            ctx.check(src, 'flow|%s|created' % f.path, 'apply_on_abort releases exactly the savepoints created in this transaction (mem::take(created_persistent))', f, p.line)
    f = ctx.fn('SavepointTransactionState::apply_on_abort')
    if f is not None:
        dl = f.calls_to(TT + '::deallocate_savepoint')
        nxt = [c for c in f.calls if c.matches('Iterator::next')]
        e_none = core.guard_edges(f, [Guard(call='Iterator::next', vals={'None'})])
        for n_ in nxt:
            r = core.reach(f, start=(n_.bb, len(f.blocks[n_.bb]['s']) - 1), cut_edges=e_none, cut_blocks={c.bb for c in dl})
            again = [m_ for m_ in nxt if m_.bb in r['term'] and m_.bb != n_.bb] or (n_.bb in {tb for (bb_, si_) in r['edges'] for tb in [f.succ(bb_)[si_][0]]} and False)
            # the loop may not advance (reach its own next() again) or finish without releasing the entry
            looped = False
            for (bb_, si_) in r['edges']:
                if f.succ(bb_)[si_][0] == n_.bb:
                    looped = True
            fin = any(rb in r['term'] for rb in f.ret_blocks())
            ctx._ob(not (looped or fin or again), ctx.sample('must-pass', f, n_.line, 'every savepoint created in the aborted transaction is released'))
            if looped or fin or again:
                ctx.violate('must-pass|%s|created-skipped' % f.path, 'a persistent savepoint created in the aborted transaction can be skipped by apply_on_abort: its tracker registration (and read pin) would never be released', f, n_.line)
    f = ctx.fn('SavepointTransactionState::apply_on_commit')
    if f is not None:
        a = ctx.sites(f, TT + '::deallocate_savepoint', exact=1)
        b = ctx.sites(f, TT + '::invalidate_savepoints', exact=1)
        ctx.must_pass(f, b, exits='any', what='commit always applies the staged invalidations')
    ctx.callers_eq('SavepointTransactionState::apply_on_commit', {WT + '::apply_savepoint_state_on_commit'})
    ctx.callers_eq('SavepointTransactionState::apply_on_abort', {WT + '::abort_inner_impl'})
    ctx.callers_eq(WT + '::apply_savepoint_state_on_commit', {WT + '::commit_inner_helper', WT + '::durable_commit'})
    f = ctx.fn(WT + '::durable_commit')
    if f is not None:
        ap = ctx.sites(f, WT + '::apply_savepoint_state_on_commit', exact=1)
        ctx.guarded(f, ap, [ok(TM + '::commit')], 'savepoint state applied only after the durable commit succeeded')
        cm = ctx.sites(f, TM + '::commit', exact=1)
        ctx.must_pass(f, ap, start=cm[0] if cm else None, what='every successful durable commit applies the savepoint state')
    f = ctx.fn(WT + '::commit_inner_helper')
    if f is not None:
        ap = ctx.sites(f, WT + '::apply_savepoint_state_on_commit', exact=1)
        ctx.guarded(f, ap, [ok(WT + '::non_durable_commit')], 'savepoint state applied only after the non-durable commit succeeded')
    ctx.set_rule('C05.R8', 'restore staging is transaction-local')
    own = set()
    for f_ in ctx.facts.fn_list:
        for b in f_.blocks:
            for s_ in b['s']:
                if s_[0] == 'a' and s_[1][1] and s_[1][1][-1] == '.restored_transaction':
                    own.add(ctx.facts.root_of(f_).path)
    ctx.check(own == {'transactions::WriteTransaction::restore_savepoint_inner'}, 'writers|restored_transaction', 'only restore_savepoint_inner stores WriteTransaction.restored_transaction (found %s)' % sorted(own))
    ctx.callers_eq(TM + '::drop_unpersisted_data_freed_after', {WT + '::commit_inner_helper'})
    f = ctx.fn(WT + '::commit_inner_helper')
    if f is not None:
        dr = ctx.sites(f, TM + '::drop_unpersisted_data_freed_after', exact=1)
        ctx.guarded(f, dr, [Guard(place='self.restored_transaction', vals={'Some'})])


# ------------------------------------------------------------------------------------ C08
SB_METHODS = ('len', 'read', 'write', 'set_len', 'sync_data', 'close')


def c08_r1_one_door(ctx):
    ctx.set_rule('C08.R1', 'one door to the backend: StorageBackend methods are called only by CheckedBackend (and the forwarding ReadOnlyBackend)')
    ro = ctx.cfg != 'N'
    table = {
        'len': {CB + '::len'} | ({'<ReadOnlyBackend as StorageBackend>::len'} if ro else set()),
        'read': {CB + '::read'} | ({'<ReadOnlyBackend as StorageBackend>::read'} if ro else set()),
        'write': {CB + '::write', CB + '::write_best_effort'},
        'set_len': {CB + '::set_len'},
        'sync_data': {CB + '::sync_data'},
        'close': {CB + '::close', '<CheckedBackend as Drop>::drop'} | ({'<ReadOnlyBackend as StorageBackend>::close'} if ro else set()),
    }
    for m, exp in table.items():
        ctx.callers_eq('StorageBackend::' + m, exp)
    # the CheckedBackend operations themselves have frozen callers
    ctx.callers_eq(CB + '::write', {PCF + '::flush_lowest_priority', PCF + '::flush_write_buffer'})
    ctx.callers_eq(CB + '::write_best_effort', {PCF + '::flush_lowest_priority'})
    ctx.callers_eq(CB + '::set_len', {PCF + '::resize'})
    ctx.callers_eq(CB + '::sync_data', {PCF + '::flush', PCF + '::sync_file'})
    ctx.callers_eq(CB + '::close', {PCF + '::close'})
    ctx.callers_eq(CB + '::read', {PCF + '::read_direct', PCF + '::read_direct_into_arc'})
    ctx.callers_eq(CB + '::len', {PCF + '::raw_file_len', PCF + '::resize'})
    # the boxed backend is owned only by CheckedBackend / ReadOnlyBackend
    holders = set()
    for p, a in ctx.facts.adts.items():
        for v in a['variants']:
            for fl in v['fields']:
                if 'dyn db::StorageBackend' in fl['adts']:
                    holders.add(p)
    exp = {'tree_store::page_store::cached_file::CheckedBackend'} | ({'tree_store::page_store::backends::ReadOnlyBackend'} if ro else set())
    ctx.check(holders == exp, 'holders|dyn StorageBackend', 'only %s hold a Box<dyn StorageBackend> (found %s)' % (sorted(exp), sorted(holders)))


def c08_r2_check_then_latch(ctx):
    ctx.set_rule('C08.R2', 'every backend operation: refused after a failure (check_failure Ok-edge), failure latched on error')
    n = 0
    latch_helpers = set()
    for m in ('len', 'read', 'set_len', 'sync_data', 'write'):
        f = ctx.fn(CB + '::' + m)
        if f is None:
            continue
        bk = ctx.sites(f, 'StorageBackend::' + m, exact=1)
        ctx.guarded(f, bk, [ok(CB + '::check_failure')], 'backend %s only after check_failure returned Ok' % m)
        S0 = core.sym(f)
        direct = [c for c in f.calls_to('Atomic::store') if c.t['a'] and S0.describe(S0.operand(c.t['a'][0])).endswith('.io_failed')]
        if not direct:
            # `self.latch(self.file.op(..))`: the test and the latch extracted into a helper that is
            # handed the backend's result
            import rulekit as _rk
            via, g = None, None
            for c in f.calls:
                if f.blocks[c.bb]['c'] or not c.callee or _rk._is_named_anchor(c.callee):
                    continue
                g_ = ctx.facts.fns.get(c.callee)
                if g_ is None or not g_.calls_to('Atomic::store'):
                    continue
                if any(a[0] != 'k' and core.flows_from_call(f, a, 'StorageBackend::' + m) for a in c.t['a']):
                    via, g = cpoint(c), g_
                    break
            ok_ = via is not None
            ctx._ob(ok_, ctx.sample('sites', f, f.line, 'the result of the backend %s is handed to a latching helper' % m))
            if not ok_:
                ctx.violate('floor|%s|latch' % f.path, 'expected exactly 1 atomic store of `self.io_failed` with value True (or a helper that receives the backend result and latches), found 0', f, f.line)
                continue
            ctx.must_pass(f, [via], start=bk[0] if bk else None, exits='any', what='the result of the backend %s always reaches the latching helper' % m)
            pname = 'result'
            for ai, a in enumerate(via.call.t['a']):
                if a[0] != 'k' and core.flows_from_call(f, a, 'StorageBackend::' + m):
                    pname = g.local_name(ai + 1) or pname
            st = ctx.atomic_sites(g, 'store', 'self.io_failed', exact=1, value=True)
            ctx.guarded(g, st, [Guard(place=pname, vals={'Err'}), Guard(call='Result::is_err', vals={'true'})], 'failure latched on the error edge')
            e_ok = core.guard_edges(g, [Guard(place=pname, vals={'Ok'}), Guard(call='Result::is_err', vals={'false'})])
            ctx.must_pass(g, st, exits='any', extra_cut_edges=e_ok, what='a failed backend %s always latches io_failed' % m)
            latch_helpers.add(g.path)
            n += 1
            continue
        st = ctx.atomic_sites(f, 'store', 'self.io_failed', exact=1, value=True)
        ctx.guarded(f, st, [err('StorageBackend::' + m)], 'failure latched on the error edge')
        e_ok = core.guard_edges(f, [ok('StorageBackend::' + m)])
        ctx.must_pass(f, st, start=bk[0] if bk else None, exits='any', extra_cut_edges=e_ok, what='a failed backend %s always latches io_failed' % m)
        n += 1
    f = ctx.fn(CB + '::write_best_effort')
    if f is not None:
        bk = ctx.sites(f, 'StorageBackend::write', exact=1)
        ctx.guarded(f, bk, [ok(CB + '::check_failure')])
        n += 1
    ctx.check(n >= 6, 'floor|checked-ops', 'the 6 CheckedBackend operations were analysed (found %d)' % n)
    f = ctx.fn(CB + '::check_failure')
    if f is not None:
        # Ok(()) only when io_failed is false
        oks = []
        for i, b in enumerate(f.blocks):
            for j, s_ in enumerate(b['s']):
                if s_[0] == 'a' and s_[1][0] == 0 and not s_[1][1] and s_[2]['k'] == 'agg' and s_[2]['v'] == 'Ok':
                    oks.append(Point(f, i, j, 'return Ok', s_[3]))
        ctx.check(len(oks) >= 1, 'floor|%s|ok' % f.path, 'check_failure has an Ok return', f, f.line)
        ctx.guarded(f, oks, [Guard(place='self.io_failed', vals={'false'})], 'check_failure returns Ok only while io_failed is false')
    # writers of io_failed
    own = set()
    for f_ in ctx.facts.fn_list:
        S_ = core.sym(f_)
        for c in f_.calls_to('Atomic::store'):
            d = S_.describe(S_.operand(c.t['a'][0])) if c.t['a'] else ''
            if d.endswith('.io_failed'):
                own.add(f_.path)
                a = c.t['a'][1]
                ctx.check(a[0] == 'k' and a[2] is True, 'unlatch|%s' % f_.path, 'io_failed is only ever set to true', f_, c.line)
    n_w = len(own - latch_helpers) + sum(len(set(ctx.facts.callers_of(h_))) for h_ in latch_helpers)
    ctx.check(n_w >= 6, 'floor|io_failed-writers', 'io_failed writers found: %d' % n_w)


def c08_r3_no_dropped_errors(ctx):
    ctx.set_rule('C08.R3', 'no storage error is dropped (discard allow-list)')
    allow = {
        (PCF + '::read', PCF + '::flush_buffered_pages'): 'best-effort reclaim of buffered pages; documented at the site',
        ('<CheckedBackend as Drop>::drop', 'StorageBackend::close'): 'failed open path: Drop cannot report',
        ('BtreeMut::retain_in_helper', 'CursorMut::finish_pending_removals'): 'error already being propagated; documented at the site',
        ('BtreeExtractIf::latch_error', 'BtreeExtractIf::close'): 'the original error is what is reported',
        ('<BtreeExtractIf as Drop>::drop', 'BtreeExtractIf::close'): 'Drop cannot report; close_failed poisons (C05.R4)',
        ('<ExtractIf as Drop>::drop', 'BtreeExtractIf::close'): 'Drop cannot report; close_failed poisons (C05.R4)',
        ('<CursorMut as Drop>::drop', 'CursorMut::finish'): 'Drop cannot report; finish() poisons (C05.R4)',
    }
    ds = core.discard_sites(ctx.facts)
    # the backend's own io::Error results (file backends, StorageBackend methods) are errors of the same kind
    have = {(c.fn.path, c.bb) for c in ds}
    for c in core.discard_sites_generic(ctx.facts, ['Error']):
        et = core.result_err_type(c.t.get('dty', '')) or ''
        if 'io::' in et and (c.fn.path, c.bb) not in have:
            ds.append(c)
    io_total = sum(1 for f_ in ctx.facts.fn_list for c_ in f_.calls if 'io::' in (core.result_err_type(c_.t.get('dty', '')) or ''))
    if ctx.cfg != 'N':
        ctx.check(io_total >= 15, 'floor|io-result-calls', 'calls returning io::Error examined: %d' % io_total)
    seen = set()
    for c in ds:
        root = ctx.facts.root_of(c.fn)
        hit = None
        for (fn_pat, callee_pat), why in allow.items():
            if core.name_matches(fn_pat, root.names) and c.matches(callee_pat):
                hit = (fn_pat, callee_pat)
        ctx._ob(hit is not None, ctx.sample('discard', c.fn, c.line, 'discarded Result of %s in %s: %s' % (c.callee, root.path, allow.get(hit, 'NOT ALLOWED'))))
        if hit is None:
            ctx.violate('discard|%s|%s' % (root.path, core.strip_generics(c.callee or '?')), 'storage error dropped: the Result of `%s` is never looked at in `%s`' % (c.callee, root.path), c.fn, c.line)
        else:
            seen.add(hit)
    # count of calls examined
    total = 0
    for f in ctx.facts.fn_list:
        for c in f.calls:
            et = core.result_err_type(c.t.get('dty', ''))
            if et and any(e in et for e in core.ERR_TYPES):
                total += 1
    ctx.per_rule[ctx.rule]['sites'] += total
    ctx.check(total >= 1000, 'floor|result-calls', 'at least 1000 calls returning a redb error type were examined (found %d)' % total)
    ctx.check(len(seen) >= 6, 'floor|discard-detector', 'the discard detector still sees the 6 documented discard sites (found %d) -- otherwise it is blind' % len(seen))


def c08_r4_refused_after_failure(ctx):
    ctx.set_rule('C08.R4', 'commits start behind check_io_errors')
    for nm in (TM + '::commit', TM + '::non_durable_commit'):
        f = ctx.fn(nm)
        if f is not None:
            ws = ctx.sites(f, 'DatabaseHeader::write_secondary_slot', exact=1)
            ctx.guarded(f, ws, [ok(PCF + '::check_io_errors')])
    f = ctx.fn(WT + '::abort_inner_impl')
    if f is not None:
        rb = ctx.sites(f, PA + '::rollback_all', exact=1)
        ctx.guarded(f, rb, [ok(TM + '::check_io_errors')], 'no rollback I/O after a failure')
    f = ctx.fn(TM + '::storage_failure')
    if f is not None:
        ctx.sites(f, PCF + '::check_io_errors', exact=1)
    f = ctx.fn(PCF + '::check_io_errors')
    if f is not None:
        ctx.sites(f, CB + '::check_failure', exact=1)


def c08_r8_flush_keeps_page(ctx):
    ctx.set_rule('C08.R8', 'a failed write-back keeps the page buffered')
    f = ctx.fn(PCF + '::flush_lowest_priority')
    if f is None:
        return
    ins = ctx.sites(f, 'LRUWriteCache::insert', exact=1)
    w = ctx.sites(f, [CB + '::write', CB + '::write_best_effort'], exact=2)
    ctx.guarded(f, ins, [err(CB + '::write'), err(CB + '::write_best_effort'), Guard(place='result', vals={'Err'})], 're-insert on the error edge')
    # on error the re-insert is not skippable before the error propagates
    e_ok = core.guard_edges(f, [ok(CB + '::write'), ok(CB + '::write_best_effort'), Guard(place='result', vals={'Ok'})])
    pop = ctx.sites(f, 'LRUWriteCache::pop_lowest_priority', exact=1)
    for wp in w:
        ctx.must_pass(f, ins, start=wp, exits='any', extra_cut_edges=e_ok | core.guard_edges(f, [Guard(call='LRUWriteCache::pop_lowest_priority', vals={'None'})]),
                      what='after a failed write the page is re-inserted before the function returns')
    # ... and the failure is reported: the accounting of a written page is only reached when the write succeeded
    fs = ctx.atomic_sites(f, 'fetch_sub', 'self.write_buffer_bytes', exact=1)
    ctx.guarded(f, fs, [ok(CB + '::write'), ok(CB + '::write_best_effort'), Guard(place='result', vals={'Ok'})], 'a failed write-back propagates: the page is not accounted as written')
    # write_best_effort only on the BestEffort arm
    be = [p for p in w if p.call.matches(CB + '::write_best_effort')]
    ctx.guarded(f, be, [Guard(place='writeback', vals={'BestEffort'})], 'non-latching write only for best-effort write-back')
    # callers pass Required except flush_buffered_pages
    for path, sites in ctx.facts.callers_of(PCF + '::flush_lowest_priority', root=False).items():
        for c in sites:
            a = c.t['a'][3]
            term = core.sym(c.fn).operand(a)
            v = term[2] if term[0] == 'agg' else None
            want = 'BestEffort' if path.endswith('flush_buffered_pages') else 'Required'
            ctx.check(v == want, 'writeback|%s' % path, '`%s` calls flush_lowest_priority with Writeback::%s (found %s)' % (path, want, v), c.fn, c.line)
    ctx.callers_eq(PCF + '::flush_lowest_priority', {PCF + '::write', PCF + '::flush_buffered_pages'})
    ctx.callers_eq(PCF + '::flush_buffered_pages', {PCF + '::read'})


# ------------------------------------------------------------------------------------ C20
def c20_r1_closed_means_failed(ctx):
    ctx.set_rule('C20.R1', 'close marks the backend closed and failed before closing it')
    f = ctx.fn(CB + '::close')
    if f is not None:
        a = ctx.atomic_sites(f, 'store', 'self.closed', exact=1, value=True)
        b = ctx.atomic_sites(f, 'store', 'self.io_failed', exact=1, value=True)
        c = ctx.sites(f, 'StorageBackend::close', exact=1)
        ctx.order(f, a, c)
        ctx.order(f, b, c)
        ctx.must_pass(f, c, exits='any', what='CheckedBackend::close always calls the backend close')
    f = ctx.fn(CB + '::check_failure')
    if f is not None:
        # DatabaseClosed only when closed
        pts = []
        for i, b_ in enumerate(f.blocks):
            for j, s_ in enumerate(b_['s']):
                if s_[0] == 'a' and s_[2]['k'] == 'agg' and s_[2]['v'] == 'DatabaseClosed':
                    pts.append(Point(f, i, j, 'StorageError::DatabaseClosed', s_[3]))
        ctx.check(len(pts) == 1, 'floor|DatabaseClosed', 'check_failure constructs DatabaseClosed once', f, f.line)
        ctx.guarded(f, pts, [Guard(place='self.closed', vals={'true'})])


def c20_r2_close_once(ctx):
    ctx.set_rule('C20.R2', 'close exactly once: chain of owners and guards')
    ctx.callers_eq(PCF + '::close', {TM + '::close'})
    ctx.callers_eq(TM + '::close', {'close_database'})
    f = ctx.fn('<CheckedBackend as Drop>::drop')
    if f is not None:
        c = ctx.sites(f, 'StorageBackend::close', exact=1)
        ctx.guarded(f, c, [Guard(place='self.closed', vals={'false'})], 'Drop closes only if close() was never called')
        e_closed = core.guard_edges(f, [Guard(place='self.closed', vals={'true'})])
        ctx.must_pass(f, c, exits='any', extra_cut_edges=e_closed, what='an unclosed backend is always closed on drop')
    f = ctx.fn(TM + '::close')
    if f is not None:
        c = ctx.sites(f, PCF + '::close', exact=1)
        ctx.must_pass(f, c, exits='any', what='TransactionalMemory::close always closes the storage, also when the shutdown writes failed')
    a = ctx.facts.adts.get('tree_store::page_store::cached_file::CheckedBackend')
    ctx.check(a is not None and a['drop'], 'drop-impl|CheckedBackend', 'CheckedBackend has a Drop impl (failed opens close the backend)')
    # closed is only ever set (never cleared)
    for f_ in ctx.facts.fn_list:
        S_ = core.sym(f_)
        for c in f_.calls_to('Atomic::store'):
            d = S_.describe(S_.operand(c.t['a'][0])) if c.t['a'] else ''
            if d.endswith('.closed') and 'CheckedBackend' in f_.path:
                a_ = c.t['a'][1]
                ctx.check(a_[0] == 'k' and a_[2] is True, 'unclose|%s' % f_.path, 'CheckedBackend.closed is only ever set to true', f_, c.line)


def c20_r3_failed_open(ctx):
    ctx.set_rule('C20.R3', 'failed opens close the backend via Drop: the backend is wrapped before the first fallible step')
    f = ctx.fn(TM + '::new')
    if f is not None:
        pn = ctx.sites(f, PCF + '::new', exact=1)
        # every error exit is after PCF::new (asserts may panic before: the Box<dyn StorageBackend> then drops without close -- asserts are argument validation)
        eb = [Point(f, b, len(f.blocks[b]['s']), 'error return', f.blocks[b]['t'].get('l')) for b in sorted(core.error_blocks(f))]
        r = core.reach(f, cut_blocks={p.bb for p in pn})
        bad = [p for p in eb if p.bb in r['term']]
        ctx.check(not bad and len(eb) > 5, 'order|%s|wrap-first' % f.path, 'no error return of TM::new is reachable before the backend is wrapped by PagedCachedFile::new (%d error exits examined)' % len(eb), f, bad[0].line if bad else f.line)
        for p in pn:
            ctx.flows(f, p, 0, from_arg='file')
    g = ctx.fn(PCF + '::new')
    if g is not None:
        cn = ctx.sites(g, CB + '::new', exact=1)
        ctx.check(not core.error_blocks(g), 'infallible|%s' % g.path, 'PagedCachedFile::new has no error return before it owns the backend', g, g.line)


def c20_r4_page_addresses(ctx):
    ctx.set_rule('C20.R4', 'page addresses are validated before they are turned into file offsets')
    for nm in ('get_page', 'get_page_mut'):
        f = ctx.fn(TM + '::' + nm)
        if f is not None:
            ar = ctx.sites(f, 'PageNumber::address_range', exact=1)
            ctx.guarded(f, ar, [ok(TM + '::check_page_order')], 'address_range only after check_page_order returned Ok')
    f = ctx.fn(TM + '::mark_page_allocated')
    if f is not None:
        ra = ctx.sites(f, 'BuddyAllocator::record_alloc', exact=1)
        gr = ctx.sites(f, 'InMemoryState::get_region_mut', exact=1)
        ctx.guarded(f, ra + gr, [ok(TM + '::check_page_order')])
        ctx.guarded_cmp(f, gr, [Guard(call='DatabaseLayout::num_regions', cmp=True)], 'allocator indexed only after the region bound check')
        ctx.guarded_cmp(f, ra, [Guard(call='RegionLayout::num_pages', cmp=True)], 'record_alloc only after the end-of-region check')
        # must_use result checked: Err on false edge
        e_true = core.guard_edges(f, [true_of('BuddyAllocator::record_alloc')])
        r = core.reach(f, start=(ra[0].bb, ra[0].idx), cut_edges=e_true, cut_blocks=core.error_blocks(f)) if ra else None
        if r is not None:
            ctx.check(not any(rb in r['term'] for rb in f.ret_blocks()), 'must-pass|%s|record_alloc-false' % f.path, 'a refused record_alloc (overlap) cannot lead to a success return', f, ra[0].line)
    f = ctx.fn(TM + '::check_page_order')
    if f is not None:
        ctx.check(len(core.error_blocks(f)) >= 1, 'floor|check_page_order-err', 'check_page_order has an error return', f, f.line)


def c20_r5_shrink(ctx):
    ctx.set_rule('C20.R5', 'shrink never below a used page: the reduction derives from trailing_free_pages')
    f = ctx.fn(TM + '::try_shrink')
    if f is not None:
        rl = ctx.sites(f, 'DatabaseLayout::reduce_last_region', exact=1)
        for p in rl:
            ctx.flows(f, p, 1, from_call='BuddyAllocator::trailing_free_pages')
        sl = ctx.sites(f, 'DatabaseHeader::set_layout', exact=1)
        rz = ctx.sites(f, 'Allocators::resize_to', exact=1)
        ctx.order(f, rl, sl + rz)
        tf = ctx.sites(f, 'BuddyAllocator::trailing_free_pages', exact=1)
        gr = ctx.sites(f, 'InMemoryState::get_region', exact=1)
    f = ctx.fn(TM + '::commit')
    if f is not None:
        rs = ctx.sites(f, PCF + '::resize', exact=1)
        ctx.guarded(f, rs, [Guard(place='shrunk', vals={'true'})], 'file shrunk only if try_shrink reduced the layout')
        for p in rs:
            ctx.flows(f, p, 1, from_call='DatabaseLayout::len')


def c20_r6_read_only(ctx):
    ctx.set_rule('C20.R6', 'read-only database: wrapped backend, read_only flag, never writes/resizes/syncs')
    if ctx.cfg == 'N':
        ctx.check(not ctx.has_fn('ReadOnlyDatabase::new'), 'absent|ReadOnlyDatabase', 'ReadOnlyDatabase does not exist in the no_std configuration')
        return
    f = ctx.fn('ReadOnlyDatabase::new')
    if f is not None:
        tm = ctx.sites(f, TM + '::new', exact=1)
        rb = ctx.sites(f, 'ReadOnlyBackend::new', exact=1)
        for p in tm:
            ctx.flows(f, p, 0, from_call='ReadOnlyBackend::new', what='TransactionalMemory receives the read-only wrapper')
            ctx.const_arg(f, p, 1, False, 'allow_initialize = false')
            ctx.const_arg(f, p, 5, True, 'read_only = true')
        ctx.no_direct(f, [TM + '::begin_writable', TM + '::commit', 'Database::do_repair'], 'read-only open never marks the file writable or repairs')
        la = ctx.sites(f, TM + '::load_allocator_state', exact=1)
        ctx.guarded(f, la, [Guard(call='Database::get_allocator_state_table', vals={'Some'})])
    for m in ('write', 'set_len', 'sync_data'):
        g = ctx.fn('<ReadOnlyBackend as StorageBackend>::' + m)
        if g is not None:
            bad = [c for c in g.calls if c.matches('StorageBackend::' + m) or c.t.get('virt')]
            ctx.check(not bad, 'forward|ReadOnlyBackend::%s' % m, 'ReadOnlyBackend::%s forwards nothing to the wrapped backend' % m, g, g.line)
            ctx.check(not g.ret_blocks() or not any(rb in core.reach(g)['term'] for rb in g.ret_blocks()), 'diverges|ReadOnlyBackend::%s' % m, 'ReadOnlyBackend::%s diverges (unreachable!)' % m, g, g.line)
    a = ctx.facts.adts.get('db::ReadOnlyDatabase')
    ctx.check(a is not None and not a['drop'], 'drop|ReadOnlyDatabase', 'ReadOnlyDatabase has no Drop impl (no shutdown write; the backend is closed by CheckedBackend::drop)')
    # Database constructors pass read_only = false
    f = ctx.fn('Database::new')
    if f is not None:
        for p in ctx.sites(f, TM + '::new', exact=1):
            ctx.const_arg(f, p, 5, False)
    # in TM::new the recovery rewrite is behind !read_only
    f = ctx.fn(TM + '::new')
    if f is not None:
        # RepairAborted return guarded by read_only true
        pts = []
        for i, b_ in enumerate(f.blocks):
            for j, s_ in enumerate(b_['s']):
                if s_[0] == 'a' and s_[2]['k'] == 'agg' and s_[2]['v'] == 'RepairAborted':
                    pts.append(Point(f, i, j, 'DatabaseError::RepairAborted', s_[3]))
        ctx.check(len(pts) == 1, 'floor|RepairAborted', 'TM::new constructs RepairAborted once', f, f.line)
        ctx.guarded(f, pts, [Guard(place='read_only', vals={'true'})])
        # with read_only == true, nothing after the recovery test can write, sync or resize the storage
        # (the read-only refusal and the recovery rewrite must be keyed on the same condition; repeated
        # tests of the immutable local `needs_recovery` are correlated by the reachability engine)
        rr = ctx.sites(f, 'UnrepairedDatabaseHeader::recovery_required', exact=1)
        e_rw = core.guard_edges(f, [Guard(place='read_only', vals={'false'})])
        ctx.check(bool(e_rw), 'guard-missing|%s|read_only' % f.path, 'TM::new tests read_only', f, f.line)
        if rr and e_rw:
            r = core.reach(f, start=(rr[0].bb, rr[0].idx), cut_edges=e_rw)
            bad = [c for c in f.calls if c.matches((PCF + '::write', PCF + '::flush', PCF + '::resize', PCF + '::sync_file')) and c.bb in r['term']]
            ctx._ob(not bad, ctx.sample('guard', f, rr[0].line, 'read_only open: no storage write/flush/resize reachable after the recovery test'))
            if bad:
                ctx.violate('read-only-writes|%s|%s' % (f.path, core.strip_generics(bad[0].callee)), 'a read-only open can reach `%s` after the recovery test: a read-only database would write to / sync its storage' % bad[0].callee, f, bad[0].line,
                            core.path_lines(f, core.find_path(f, bad[0].bb, cut_edges=e_rw, start=(rr[0].bb, 0))))


# ------------------------------------------------------------------------------------ C06
def c06_r2_handover(ctx):
    ctx.set_rule('C06.R2', 'linear hand-over of freed and allocated page lists at commit')
    f = ctx.fn(WT + '::commit_inner_helper')
    if f is not None:
        fc = ctx.sites(f, 'TableTreeMut::flush_and_close', exact=1)
        ru = ctx.sites(f, TM + '::record_unpersisted_data_freed', exact=1)
        # the Immediate arm stores through the one-line wrapper store_data_freed_pages, or (wrapper
        # inlined) calls store_data_freed_pages_for itself
        wrapped = ctx.has_fn(WT + '::store_data_freed_pages')
        sd = ctx.sites(f, WT + ('::store_data_freed_pages' if wrapped else '::store_data_freed_pages_for'), exact=1)
        ctx.must_pass(f, ru + sd, start=fc[0] if fc else None, what='every success path records the freed data pages (in memory or in DATA_FREED_TABLE)')
        for p in ru:
            ctx.flows(f, p, 2, from_call='TableTreeMut::flush_and_close')
        for p in sd:
            ctx.flows(f, p, 1 if wrapped else 2, from_call='TableTreeMut::flush_and_close')
            if not wrapped:
                d_ = core.sym(f).describe(core.sym(f).operand(p.call.t['a'][1])) if p.call.t['a'][1][0] != 'k' else ''
                ctx.check(d_.endswith('transaction_id'), 'flow|%s|own-id' % f.path, 'the freed pages are stored under self.transaction_id (found `%s`)' % d_, f, p.line)
        # exactly one of them on a path: they sit on different arms of the durability match
        if ru and sd:
            r1 = core.reach(f, start=(ru[0].bb, ru[0].idx))
            r2 = core.reach(f, start=(sd[0].bb, sd[0].idx))
            ctx.check(sd[0].bb not in r1['term'] and ru[0].bb not in r2['term'], 'exclusive|%s|freed-record' % f.path, 'a commit records its freed pages exactly once (the two recorders are on exclusive arms)', f, ru[0].line)
        dc = ctx.sites(f, WT + '::durable_commit', exact=1)
        nd = ctx.sites(f, WT + '::non_durable_commit', exact=1)
        for p in dc + nd:
            ctx.flows(f, p, 2, from_call='TableTreeMut::flush_and_close', what='allocated page list derives from flush_and_close')
        ctx.must_pass(f, dc + nd, start=fc[0] if fc else None, what='every success path commits')
    f = ctx.fn(WT + '::durable_commit')
    if f is not None:
        fa = ctx.sites(f, WT + '::flush_data_allocated_pages', exact=1)
        for p in fa:
            ctx.flows(f, p, 1, from_arg='allocated_pages')
        ctx.must_pass(f, fa, what='a durable commit always records its allocations')
    f = ctx.fn(WT + '::non_durable_commit')
    if f is not None:
        ra = ctx.sites(f, TM + '::record_unpersisted_allocations', exact=1)
        for p in ra:
            ctx.flows(f, p, 2, from_arg='allocated_pages')
        cm = ctx.sites(f, TM + '::non_durable_commit', exact=1)
        ctx.must_pass(f, ra, start=cm[0] if cm else None, what='a non-durable commit always records its allocations in memory')
        for p in cm:
            ctx.flows(f, p, 4, from_call=PA + '::take_allocated_since_commit', what='newly unpersisted set = pages allocated since the last commit')
    f = ctx.fn(WT + '::store_data_freed_pages') if ctx.has_fn(WT + '::store_data_freed_pages') else None
    if f is not None:
        s_ = ctx.sites(f, WT + '::store_data_freed_pages_for', exact=1)
        for p in s_:
            ctx.flows(f, p, 2, from_arg='freed_pages')
        ctx.must_pass(f, s_)


def c06_r3_durable_drains(ctx):
    ctx.set_rule('C06.R3', 'durable commit drains the in-memory stand-ins, in order')
    f = ctx.fn(WT + '::durable_commit')
    if f is not None:
        a = ctx.sites(f, TM + '::take_unpersisted_data_freed', exact=1)
        b = ctx.sites(f, WT + '::process_freed_pages', exact=1)
        c = ctx.sites(f, WT + '::flush_data_allocated_pages', exact=1)
        d = ctx.sites(f, TM + '::commit', exact=1)
        ctx.order(f, a, b)
        ctx.order(f, b, c, 'allocations flushed after reclaimed pages were dropped from the in-memory map')
        ctx.order(f, c, d)
        sf = ctx.sites(f, WT + '::store_data_freed_pages_for', exact=1)
        for p in sf:
            ctx.flows(f, p, 2, from_call=TM + '::take_unpersisted_data_freed')
        ctx.guarded(f, d, [ok(WT + '::process_freed_pages'), ], 'commit only after freed pages were processed')
        ctx.guarded(f, d, [ok(WT + '::flush_data_allocated_pages')])
    ctx.callers_eq('UnpersistedState::clear', {TM + '::commit', TM + '::clear_cache_and_reload'})
    ctx.callers_eq(TM + '::take_unpersisted_data_freed', {WT + '::durable_commit'})
    ctx.callers_eq(TM + '::take_unpersisted_allocations', {WT + '::flush_data_allocated_pages'})
    f = ctx.fn(WT + '::flush_data_allocated_pages')
    if f is not None:
        tk = ctx.sites(f, TM + '::take_unpersisted_allocations', exact=1)
        we = ctx.sites(f, WT + '::write_allocated_pages_entry', exact=2)
        ctx.must_pass(f, we, what='allocations are written to DATA_ALLOCATED_TABLE on every success path')



def const_names_at(ctx, points, pattern, argidx, depth=2):
    """names of the constant operands passed as argument `argidx` to `pattern` at the given sites.
    A site that is a call of a local helper (counted through a must-call summary) is followed into
    the helper, so that extracting the statements around the call does not lose the constant."""
    names = set()

    def visit(fn, call, d):
        if call.matches(pattern):
            a = call.t['a'][argidx] if argidx < len(call.t['a']) else None
            names.add(a[3] if a is not None and a[0] == 'k' and len(a) > 3 else None)
            return
        if d <= 0 or not call.callee:
            names.add(None)
            return
        try:
            g = ctx.facts.fn(call.callee)
        except core.AnchorError:
            names.add(None)
            return
        inner = [c for fam in g.family() for c in fam.calls_to(pattern)]
        if not inner:
            names.add(None)
        for c in inner:
            visit(c.fn, c, d - 1)

    for p_ in points:
        visit(p_.fn, p_.call, depth)
    return names


def c06_r4_rebuild(ctx):
    ctx.set_rule('C06.R4', 'the allocator rebuild uses the same ownership rule')
    f = ctx.fn('Database::rebuild_allocator_state')
    if f is not None:
        rs = ctx.sites(f, TM + '::reset_allocator_state', exact=1)
        va = ctx.sites(f, 'TableTree::visit_all_pages', exact=2)
        vf = ctx.sites(f, 'Database::visit_freed_tree', exact=2)
        up = ctx.sites(f, TM + '::unpersisted_data_freed_pages', exact=1)
        ctx.order(f, rs, va + vf + up)
        for x in va + vf + up:
            ctx.must_pass(f, [x], what='every successful rebuild passes %s' % x.desc)
        names = const_names_at(ctx, vf, 'Database::visit_freed_tree', 1)
        ctx.check(names == {'transactions::DATA_FREED_TABLE', 'transactions::SYSTEM_FREED_TABLE'}, 'const|visit_freed_tree', 'both freed tables (DATA_FREED_TABLE, SYSTEM_FREED_TABLE) are walked (found %s)' % sorted(str(n) for n in names), f, f.line)
        mk = ctx.sites(f, TM + '::mark_page_allocated', floor=5, family=True)
        if f.calls_to(TM + '::mark_page_allocated'):
            direct = ctx.sites(f, TM + '::mark_page_allocated', exact=1)
            for p in direct:
                ctx.flows(f, p, 1, from_call=TM + '::unpersisted_data_freed_pages')
            ctx.each_iteration_passes(f, direct, 'every in-memory pending-free page is marked allocated by the rebuild', 'pending-free-skipped')
        else:
            # the same loop written as `pages.into_iter().try_for_each(|p| mem.mark_page_allocated(p))?`
            tf = [cpoint(c) for c in f.calls if c.matches(('Iterator::try_for_each', 'Iterator::for_each')) and not f.blocks[c.bb]['c']
                  and c.t['a'] and c.t['a'][0][0] != 'k' and core.flows_from_call(f, c.t['a'][0], TM + '::unpersisted_data_freed_pages')]
            ok_ = len(tf) == 1
            ctx._ob(ok_, ctx.sample('sites', f, f.line, 'the in-memory pending-free pages are iterated'))
            if not ok_:
                ctx.violate('floor|%s|pending-free-iteration' % f.path, 'expected one loop (or try_for_each) over unpersisted_data_freed_pages that marks each page allocated, found %d' % len(tf), f, f.line)
            else:
                ctx.must_pass(f, tf, what='every successful rebuild marks the in-memory pending-free pages')
        # every closure passed to a walker marks the page
        for cl in f.closures:
            if cl.calls_to(TM + '::mark_page_allocated'):
                ctx.must_pass(cl, [cpoint(c) for c in cl.calls_to(TM + '::mark_page_allocated')], exits='any', what='walker closure always marks the page')
        rc = ctx.sites(f, 'Database::with_recounted_length', exact=2)
        for p in rc:
            ctx.flows(f, p, 1, from_call='TableTree::count_tables', what='returned roots carry recounted lengths')
    ctx.callers_eq(TM + '::mark_page_allocated', {'Database::rebuild_allocator_state'})
    ctx.callers_eq(TM + '::reset_allocator_state', {'Database::rebuild_allocator_state'})
    ctx.callers_eq('Database::rebuild_allocator_state', {'Database::do_repair', 'Database::repair_live_state'})


def c06_r5_tracking(ctx):
    ctx.set_rule('C06.R5', 'allocation tracking switched off only when no savepoint can need it')
    f = ctx.fn('TableNamespace::set_dirty')
    if f is not None:
        d = ctx.sites(f, 'PageTracker::disable', exact=1)
        ctx.guarded(f, d, [false_of(TT + '::any_savepoint_exists')])
        st = ctx.atomic_sites(f, 'store', 'dirty', exact=1, value=True)
        ctx.order(f, st, d, 'dirty flag set before the savepoint test')
        ctx.must_pass(f, st, exits='any', what='set_dirty always sets the dirty flag')
    ctx.callers_eq('PageTracker::disable', {'TableNamespace::set_dirty'})
    ctx.callers_eq('TableNamespace::set_dirty', {'TableNamespace::open_table', 'TableNamespace::open_multimap_table', 'TableNamespace::rename_table', 'TableNamespace::rename_multimap_table', 'TableNamespace::delete_table', 'TableNamespace::delete_multimap_table'})
    for nm in ('open_table', 'open_multimap_table', 'rename_table', 'rename_multimap_table', 'delete_table', 'delete_multimap_table'):
        g = ctx.fn('TableNamespace::' + nm)
        if g is not None:
            sd = ctx.sites(g, 'TableNamespace::set_dirty', exact=1)
            ctx.must_pass(g, sd, what='%s always marks the transaction dirty' % nm)


def c06_r6_restore(ctx):
    ctx.set_rule('C06.R6', 'restore: swap root, purge later freed records, free tracked allocations, queue allocations since the savepoint')
    f = ctx.fn(WT + '::restore_savepoint_inner')
    if f is None:
        return
    sr = ctx.sites(f, 'TableNamespace::set_root', exact=1)
    for p in sr:
        ctx.flows(f, p, 1, from_call='Savepoint::get_user_root')
    ex = ctx.sites(f, 'SystemTable::extract_from_if', exact=1)
    rs = ctx.sites(f, 'PageTracker::reset', exact=1)
    fr = ctx.sites(f, PA + '::free', exact=1)
    ua = ctx.sites(f, TM + '::unpersisted_allocations_after', exact=1)
    pu = ctx.sites(f, 'Vec::push', exact=2)
    rg = ctx.sites(f, 'SystemTable::range', exact=1)
    ri = ctx.sites(f, 'SavepointTransactionState::record_invalidated', exact=1)
    for x in sr + ex + rs + ua + rg + ri:
        ctx.must_pass(f, [x], what='every successful restore passes %s' % x.desc)
    # both table ranges start at the transaction AFTER the savepoint's (inclusive lower bound T+1): the
    # records of T itself belong to the restored state
    for x in ex + rg:
        ctx.flows(f, x, 1, from_call=['Savepoint::get_transaction_id', 'TransactionId::next'], what='%s starts at savepoint transaction id + 1' % x.desc)
    for p in ua:
        ctx.flows(f, p, 1, from_call='Savepoint::get_transaction_id')
        # `unpersisted_allocations_after` is exclusive ("strictly after"): it takes the savepoint's own
        # transaction id, not the inclusive `.next()` bound used for the two table ranges
        _l, calls_, _a, _k = core.flow_sources(f, p.call.t['a'][1])
        bad_ = [bb for bb in calls_ if core.CallSite(f, bb, f.blocks[bb]['t']).matches(('TransactionId::next', 'TransactionId::new'))]
        ctx.check(not bad_, 'flow|%s|exclusive-bound' % f.path, 'unpersisted_allocations_after receives the savepoint transaction id itself (it is exclusive), not an id advanced by next()', f, p.line)
    opens = ctx.sites(f, 'SystemNamespace::open_system_table', exact=2)
    names = const_names_at(ctx, opens, 'SystemNamespace::open_system_table', 1)
    ctx.check(names == {'transactions::DATA_FREED_TABLE', 'transactions::DATA_ALLOCATED_TABLE'}, 'const|restore-tables', 'restore purges DATA_FREED_TABLE and scans DATA_ALLOCATED_TABLE (found %s)' % sorted(str(n) for n in names), f, f.line)
    st = ctx.stores(f, 'restored_transaction', owner='WriteTransaction')
    ctx.must_pass(f, st, what='successful restore records the restored transaction')
    cl = ctx.sites(f, 'Vec::clear', exact=1)
    ctx.order(f, cl, pu, 'stale freed list cleared before the pages allocated since the savepoint are queued')


# ------------------------------------------------------------------------------------ C07
def c07_rules(ctx):
    ctx.set_rule('C07.R1', 'savepoint capture: dirty test and registration under the tables lock')
    f = ctx.fn(WT + '::ephemeral_savepoint')
    if f is not None:
        ld = ctx.atomic_sites(f, 'load', 'self.dirty', exact=1)
        if ctx.has_fn(WT + '::allocate_savepoint'):
            al = ctx.sites(f, WT + '::allocate_savepoint', exact=1)
        else:
            al = ctx.sites(f, TT + '::register_read_transaction', exact=1) + ctx.sites(f, TT + '::allocate_savepoint', exact=1)
        ctx.held(f, ld + al, 'self.tables')
        ctx.guarded(f, al, [Guard(place='self.dirty', vals={'false'})], 'no savepoint in a dirty transaction')
    ctx.set_rule('C07.R2', 'validity checks cut off the restore')
    f = ctx.fn(WT + '::restore_savepoint')
    if f is not None:
        ri = ctx.sites(f, WT + '::restore_savepoint_inner', exact=1)
        ctx.guarded(f, ri, [true_of(TT + '::is_valid_savepoint')])
        ctx.guarded(f, ri, [false_of('SavepointTransactionState::is_invalidated')])
        ctx.guarded_cmp(f, ri, [Guard(call='Savepoint::db_address', cmp=True)], 'foreign savepoints rejected')
        # on one arm of the durability test the restore is reachable only if no later persistent savepoint exists
        e_dur = core.guard_edges(f, [Guard(place='self.durability', cmp=True)])
        e_any_false = core.guard_edges(f, [false_of('Iterator::any')])
        okk = False
        for (bb, si) in sorted(e_dur):
            others = {(bb, k) for k in range(len(f.succ(bb))) if k != si}
            r = core.reach(f, cut_edges=others | e_any_false)
            if ri and ri[0].bb not in r['term'] and bool(e_any_false):
                okk = True
        ctx._ob(okk, ctx.sample('guard', f, ri[0].line if ri else f.line, 'non-immediate durability: restore only if no later persistent savepoint exists'))
        if not okk:
            ctx.violate('guard|%s|durability-later-persistent' % f.path, 'restore_savepoint_inner is reachable on both outcomes of the durability test without the later-persistent-savepoint check', f, ri[0].line if ri else f.line)
        st = ctx.atomic_sites(f, 'store', 'self.dirty', exact=1, value=True)
        ctx.order(f, st, ri)
    ctx.set_rule('C07.R3', 'persistent savepoint operations require immediate durability')
    for nm, tg in (('persistent_savepoint', 'SystemTable::insert'), ('delete_persistent_savepoint', 'SystemTable::remove')):
        f = ctx.fn(WT + '::' + nm)
        if f is not None:
            t = ctx.sites(f, tg, floor=1)
            ctx.guarded_cmp(f, t, [Guard(place='self.durability', cmp=True)], 'system table mutated only behind the durability test')
    f = ctx.fn(WT + '::set_durability')
    if f is not None:
        st = ctx.stores(f, 'durability', owner='WriteTransaction')
        hc = ctx.sites(f, 'SavepointTransactionState::has_created_or_deleted', exact=1)
        ctx.order(f, hc, st)
        # the refusing arm exists: an Err(PersistentSavepointModified) behind has_created_or_deleted true
        pts = []
        for i, b_ in enumerate(f.blocks):
            for j, s_ in enumerate(b_['s']):
                if s_[0] == 'a' and s_[2]['k'] == 'agg' and s_[2]['v'] == 'PersistentSavepointModified':
                    pts.append(Point(f, i, j, 'Err(PersistentSavepointModified)', s_[3]))
        ctx.check(len(pts) == 1, 'floor|PersistentSavepointModified', 'set_durability can refuse', f, f.line)
        ctx.guarded(f, pts, [true_of('SavepointTransactionState::has_created_or_deleted')])
        e_f = core.guard_edges(f, [false_of('SavepointTransactionState::has_created_or_deleted'), Guard(place='durability', vals={'Immediate'})])
        cb, cp = ctx._cuts(f, pts)
        r = core.reach(f, cut_edges=e_f, cut_points=cp)
        ctx.check(not any(core.point_reached(f, r, s_.bb, s_.idx) for s_ in st), 'guard|%s|downgrade' % f.path, 'durability cannot be lowered after a persistent savepoint was created or deleted', f, f.line)
    ctx.set_rule('C07.R4', 'savepoint lifecycle')
    f = ctx.fn('<Savepoint as Drop>::drop')
    if f is not None:
        d = ctx.sites(f, TT + '::deallocate_savepoint', exact=1)
        ctx.guarded(f, d, [Guard(place='self.ephemeral', vals={'true'})])
        e_f = core.guard_edges(f, [Guard(place='self.ephemeral', vals={'false'})])
        ctx.must_pass(f, d, exits='any', extra_cut_edges=e_f, what='dropping an ephemeral savepoint always releases it')
    f = ctx.fn(WT + '::persistent_savepoint')
    if f is not None:
        es = ctx.sites(f, WT + '::ephemeral_savepoint', exact=1)
        a = ctx.sites(f, 'Savepoint::set_persistent', exact=1)
        b = ctx.sites(f, TT + '::mark_savepoint_persistent', exact=1)
        c = ctx.sites(f, 'SavepointTransactionState::record_created', exact=1)
        for x in (a, b, c):
            ctx.must_pass(f, x, what='every successful persistent_savepoint passes %s' % (x[0].desc if x else '?'))
        ins = ctx.sites(f, 'SystemTable::insert', exact=2)
        ctx.order(f, ins, a, 'savepoint marked persistent only after its record was written')
        ctx.held(f, ins, 'self.system_tables')
    f = ctx.fn(WT + '::delete_persistent_savepoint')
    if f is not None:
        ts = ctx.sites(f, 'SerializedSavepoint::to_savepoint', exact=1)
        rm = ctx.sites(f, 'SystemTable::remove', exact=1)
        rd = ctx.sites(f, 'SavepointTransactionState::record_deleted', exact=1)
        ctx.guarded(f, rm, [ok('SerializedSavepoint::to_savepoint')], 'record parsed before it is removed')
        ctx.must_pass(f, rd, start=rm[0] if rm else None, what='a removed savepoint is recorded as deleted')
    ctx.set_rule('C07.R5', 'commit/abort bookkeeping')
    c05_r7_savepoint_symmetry(ctx)
    ctx.set_rule('C07.R6', 're-registration of persistent savepoints on open')
    f = ctx.fn('Database::new')
    if f is not None:
        rc = ctx.sites(f, TT + '::restore_savepoint_counter_state', exact=1)
        rp = ctx.sites(f, TT + '::register_persistent_savepoint', exact=1)
        ab = ctx.sites(f, WT + '::abort', exact=1)
        lp = ctx.sites(f, WT + '::list_persistent_savepoints', exact=1)
        ctx.guarded(f, rc, [Guard(call=WT + '::next_persistent_savepoint_id', vals={'Some'})])
        for p in rc:
            ctx.flows(f, p, 1, from_call=WT + '::next_persistent_savepoint_id')
        for p in rp:
            ctx.flows(f, p, 1, from_call=WT + '::get_persistent_savepoint')
        ctx.must_pass(f, lp, what='every successful open lists the persistent savepoints')
        ctx.must_pass(f, ab, what='the registration transaction is aborted')
    ctx.set_rule('C07.R7', 'purge horizon respects staged deletions')
    f = ctx.fn(WT + '::flush_data_allocated_pages')
    if f is not None:
        ex = ctx.sites(f, 'SystemTable::extract_from_if', exact=1)
        for p in ex:
            ctx.flows(f, p, 1, from_call=[TT + '::oldest_savepoint_excluding'])
        os_ = ctx.sites(f, TT + '::oldest_savepoint_excluding', exact=1)
        for p in os_:
            ctx.flows(f, p, 1, from_call='SavepointTransactionState::pending_deleted_ids')
        # return value flows from it
        rl, rc_, _a, _k = core.flow_sources(f, 0)
        ctx.check(any(core.CallSite(f, bb, f.blocks[bb]['t']).matches(TT + '::oldest_savepoint_excluding') for bb in rc_), 'flow|%s|return' % f.path, 'the returned horizon derives from oldest_savepoint_excluding', f, f.line)
    ctx.set_rule('C07.R8', 'a savepoint pins its snapshot like a reader')
    f = ctx.fn(TT + '::register_persistent_savepoint')
    if f is not None:
        e = ctx.sites(f, 'BTreeMap::entry', exact=1)
        i = ctx.sites(f, 'BTreeMap::insert', exact=1)
        ctx.held(f, e + i, TTSTATE)
        ctx.sites(f, 'Mutex::lock', exact=1)
        for p in e:
            ctx.flows(f, p, 1, from_call='Savepoint::get_transaction_id')
    f = ctx.fn(TT + '::deallocate_savepoint')
    if f is not None:
        d = ctx.sites(f, TT + '::deallocate_read_transaction', exact=1)
        ctx.must_pass(f, d, exits='any', what='a released savepoint releases its read pin')
        for p in d:
            ctx.flows(f, p, 1, from_arg='transaction')
    f = ctx.fn(TT + '::allocate_savepoint')
    if f is not None:
        ctx.held(f, ctx.sites(f, 'BTreeMap::insert', exact=1), TTSTATE)


# ------------------------------------------------------------------------------------ C11
def c11_rules(ctx):
    ctx.set_rule('C11.R1', 'a saved allocator snapshot is trusted only if it belongs to the commit being opened')
    f = ctx.fn('Database::get_allocator_state_table')
    if f is not None:
        # Some(tree) return
        somes = []
        for i, b_ in enumerate(f.blocks):
            for j, s_ in enumerate(b_['s']):
                if s_[0] == 'a' and s_[2]['k'] == 'agg' and s_[2]['v'] == 'Some' and s_[2]['a'].endswith('Option') and 'AllocatorStateTree' in (f.local_ty(s_[1][0]) if not s_[1][1] else '') or (s_[0] == 'a' and s_[2]['k'] == 'agg' and s_[2]['v'] == 'Some' and any('Btree' in f.local_ty(o[1][0]) for o in s_[2]['o'] if o[0] in ('c', 'm'))):
                    somes.append(Point(f, i, j, 'return Some(tree)', s_[3]))
        ctx.check(len(somes) >= 1, 'floor|%s|some' % f.path, 'get_allocator_state_table has a Some(tree) return', f, f.line)
        ctx.guarded(f, somes, [true_of(TM + '::used_two_phase_commit')], 'snapshot only after a two-phase commit')
        ctx.guarded(f, somes, [true_of(TM + '::is_valid_allocator_state')], 'snapshot only if it carries the id of the commit being opened')
        gt = ctx.sites(f, 'TableTree::get_table', exact=1)
        ctx.guarded(f, gt, [true_of(TM + '::used_two_phase_commit')])
    f = ctx.fn(TM + '::is_valid_allocator_state')
    if f is not None:
        g = ctx.sites(f, TM + '::get_last_committed_transaction_id', exact=1)
        eq = ctx.sites(f, 'PartialEq::eq', floor=1)
        okk = False
        for p in eq:
            _l, calls, _a, consts = core.flow_sources(f, p.call.t['a'][0])
            _l2, calls2, _a2, consts2 = core.flow_sources(f, p.call.t['a'][1])
            allc = calls | calls2
            names = [core.CallSite(f, bb, f.blocks[bb]['t']) for bb in allc]
            if any(n.matches(TM + '::get_last_committed_transaction_id') for n in names) and any(n.matches('Btree::get') for n in names):
                okk = True
        ctx.check(okk, 'flow|%s|compare' % f.path, 'is_valid_allocator_state compares the stored transaction id (Btree::get of the TransactionId key) with get_last_committed_transaction_id', f, f.line)
        key = [c for c in f.calls if c.matches('Btree::get')]
    f = ctx.fn(TM + '::load_allocator_state')
    if f is not None:
        iv = ctx.sites(f, TM + '::is_valid_allocator_state', exact=1)
        st = ctx.stores(f, 'allocators', owner='InMemoryState')
        rz = ctx.sites(f, 'Allocators::resize_to', exact=1)
        ctx.guarded(f, st, [true_of(TM + '::is_valid_allocator_state')], 'allocator state installed only behind the validity assert')
        ctx.must_pass(f, rz, what='loaded allocators are resized to the file layout')
        ctx.order(f, st, rz)
    ctx.callers_eq(TM + '::load_allocator_state', {'Database::new', 'ReadOnlyDatabase::new'}, allow_missing=({'ReadOnlyDatabase::new'} if ctx.cfg == 'N' else ()))
    ctx.set_rule('C11.R3', 'the snapshot is written inside the commit it describes')
    f = ctx.fn(WT + '::durable_commit')
    if f is not None:
        ct = ctx.sites(f, 'TableTreeMut::create_table_and_flush_table_root', exact=1)
        ctx.guarded(f, ct, [Guard(place='self.quick_repair', vals={'true'})], 'snapshot only with quick repair')
        ctx.guarded(f, ct, [false_of(TM + '::needs_repair')], 'no snapshot of an allocator that needs repair')
        fin = ctx.sites(f, 'TableTreeMut::finalize_dirty_checksums', exact=1)
        cm = ctx.sites(f, TM + '::commit', exact=1)
        dl = ctx.sites(f, 'TableTreeMut::delete_table', exact=1)
        ctx.order(f, dl, ct, 'stale snapshot deleted before a new one is created')
        ctx.must_pass(f, dl, what='every durable commit deletes the previous snapshot')
        # the snapshot block precedes checksums and commit: from ct every path to cm passes fin
        ctx.order(f, fin, cm)
        if ct and fin:
            r = core.reach(f, start=(fin[0].bb, fin[0].idx))
            ctx.check(ct[0].bb not in r['term'], 'order|%s|snapshot-before-checksums' % f.path, 'the snapshot is written before the system tree checksums are finalized', f, ct[0].line)
        clo = [c for c in f.closures if c.calls_to(TM + '::reserve_allocator_state')]
        ctx.check(len(clo) == 1, 'floor|%s|snapshot-closure' % f.path, 'the snapshot closure exists', f, f.line)
        for cl in clo:
            a = ctx.sites(cl, TM + '::reserve_allocator_state', exact=1)
            b = ctx.sites(cl, WT + '::store_system_freed_pages', exact=1)
            c = ctx.sites(cl, TM + '::try_save_allocator_state', exact=1)
            ctx.order(cl, a, b)
            ctx.order(cl, b, c, 'system freed pages recorded before the allocator state is saved')
            ctx.must_pass(cl, c, what='the closure only succeeds after try_save_allocator_state')
            # success return only when try_save returned true
            e_f = core.guard_edges(cl, [false_of(TM + '::try_save_allocator_state')])
            e_t = core.guard_edges(cl, [true_of(TM + '::try_save_allocator_state')])
            r = core.reach(cl, cut_edges=e_t, cut_blocks=core.error_blocks(cl))
            ctx.check(bool(e_t) and not any(rb in r['term'] for rb in cl.ret_blocks()), 'guard|%s|save-true' % cl.path, 'the snapshot closure returns Ok only when try_save_allocator_state reported success', cl, cl.line)
            for p in a:
                ctx.flows(cl, p, 2, from_arg=None, what='reserve_allocator_state stores the committing transaction id')
    f = ctx.fn(TM + '::reserve_allocator_state')
    if f is not None:
        ins = ctx.sites(f, 'BtreeMut::insert', exact=3)
        okk = any(core.flows_from_arg(f, p.call.t['a'][2], 'transaction_id') for p in ins)
        ctx.check(okk, 'flow|%s|txn-id' % f.path, 'reserve_allocator_state stores the transaction id it was given', f, f.line)
    ctx.callers_eq(TM + '::reserve_allocator_state', {WT + '::durable_commit'})
    ctx.callers_eq(TM + '::try_save_allocator_state', {WT + '::durable_commit'})
    ctx.set_rule('C11.R6', 'check_integrity discipline')
    f = ctx.fn('Database::check_integrity')
    if f is not None:
        ci = ctx.sites(f, 'Database::check_integrity_inner', exact=1)
        ctx.guarded(f, ci, [Guard(call='Arc::get_mut', vals={'Some'})], 'no transaction alive')
        ctx.guarded(f, ci, [false_of(TT + '::any_ephemeral_savepoint_exists')])
        ctx.guarded(f, ci, [ok(TM + '::check_io_errors')])
        ctx.guarded(f, ci, [true_of(TM + '::allocator_state_loaded')])
        inv = ctx.sites(f, TM + '::invalidate_allocator_state', exact=1)
        ctx.guarded(f, inv, [err('Database::check_integrity_inner')])
        e_ok = core.guard_edges(f, [ok('Database::check_integrity_inner')])
        ctx.must_pass(f, inv, start=ci[0] if ci else None, exits='any', extra_cut_edges=e_ok, what='a failed check always discards the half-rebuilt allocator state')
    f = ctx.fn('Database::check_integrity_inner')
    if f is not None:
        cm = ctx.sites(f, TM + '::commit', exact=1)
        rs = ctx.sites(f, TT + '::reserve_repair_transaction_id', exact=1)
        ctx.must_pass(f, rs, start=cm[0] if cm else None, what='the repair commit id is reserved')
        bw = ctx.sites(f, TM + '::begin_writable', exact=1)
        cn = ctx.sites(f, TM + '::clear_needs_repair', exact=2)
        ctx.order(f, cn, bw)
        dr = ctx.sites(f, 'Database::do_repair', exact=1)
        ctx.guarded(f, cm + bw, [ok('Database::do_repair')])
        cr = ctx.sites(f, TM + '::clear_cache_and_reload', exact=1)
        ctx.guarded(f, dr, [ok(TM + '::clear_cache_and_reload')])
        for p in cm:
            ctx.const_arg(f, p, 4, True, 'repair commit is two-phase')


# ------------------------------------------------------------------------------------ C12 (db.rs / header.rs part)
def c12_db_rules(ctx):
    ctx.set_rule('C12.R1a', 'both trees are verified; a failing tree yields false')
    f = ctx.fn('Database::verify_checksums')
    if f is not None:
        vs = ctx.sites(f, 'TableTree::verify_checksums', exact=2)
        # Ok(true) only after both returned true
        trues = []
        for i, b_ in enumerate(f.blocks):
            for j, s_ in enumerate(b_['s']):
                if s_[0] == 'a' and s_[2]['k'] == 'agg' and s_[2]['v'] == 'Ok' and s_[2]['o'] and s_[2]['o'][0][0] == 'k' and s_[2]['o'][0][2] is True:
                    trues.append(Point(f, i, j, 'return Ok(true)', s_[3]))
        ctx.check(len(trues) == 1, 'floor|%s|ok-true' % f.path, 'verify_checksums has exactly one Ok(true) return', f, f.line)
        for v in vs:
            cb, cp = ctx._cuts(f, [v])
            r = core.reach(f, cut_blocks=cb)
            ctx.check(not any(core.point_reached(f, r, t.bb, t.idx) for t in trues), 'must-pass|%s|%s' % (f.path, v.line and 'verify'), 'Ok(true) is unreachable without verifying both trees', f, v.line)
        e_t = core.guard_edges(f, [true_of('TableTree::verify_checksums')])
        for v in vs:
            r = core.reach(f, start=(v.bb, v.idx), cut_edges={e for e in e_t if e[0] in _succ_switch_blocks(f, v.bb)})
            ctx.check(not any(core.point_reached(f, r, t.bb, t.idx) for t in trues), 'guard|%s|false-propagates' % f.path, 'a tree that fails verification cannot lead to Ok(true)', f, v.line)
        tt = ctx.sites(f, 'TableTree::new', exact=2)
        srcs = set()
        for p in tt:
            for nm in ('data_root', 'system_root'):
                if core.flows_from_arg(f, p.call.t['a'][0], nm):
                    srcs.add(nm)
        ctx.check(srcs == {'data_root', 'system_root'}, 'flow|%s|roots' % f.path, 'one tree is built from data_root and one from system_root', f, f.line)
    ctx.set_rule('C12.R3', 'a slot that failed verification is never re-serialised as valid')
    f = ctx.fn('TransactionHeader::to_bytes')
    if f is not None:
        xx = ctx.sites(f, 'xxh3_checksum', exact=1)
        ctx.guarded(f, xx, [Guard(place='self.corrupt_bytes', vals={'None'})], 'a fresh checksum is computed only for slots without corrupt_bytes')
    f = ctx.fn('TransactionHeader::from_bytes')
    if f is not None:
        somes = []
        for i, b_ in enumerate(f.blocks):
            for j, s_ in enumerate(b_['s']):
                if s_[0] == 'a' and s_[2]['k'] == 'agg' and s_[2]['v'] == 'Some' and 'u8; 128' in f.local_ty(s_[1][0]):
                    somes.append(Point(f, i, j, 'corrupt_bytes = Some(raw)', s_[3]))
        ctx.check(len(somes) == 1, 'floor|%s|corrupt-some' % f.path, 'from_bytes keeps the raw bytes of a corrupted slot', f, f.line)
        ctx.guarded(f, somes, [Guard(place='corrupted', vals={'true'})])
        e_f = core.guard_edges(f, [Guard(place='corrupted', vals={'false'})])
        ctx.must_pass(f, somes, extra_cut_edges=e_f, what='a corrupted slot always keeps its raw bytes')
        xs = ctx.sites(f, 'xxh3_checksum', exact=1)
    own = set()
    for f_ in ctx.facts.fn_list:
        for b in f_.blocks:
            for s_ in b['s']:
                if s_[0] == 'a' and s_[1][1] and s_[1][1][-1] == '.corrupt_bytes':
                    own.add(f_.path)
    ctx.check(own == {'tree_store::page_store::header::DatabaseHeader::write_secondary_slot'}, 'writers|corrupt_bytes', 'only write_secondary_slot resets corrupt_bytes (found %s)' % sorted(own))
    ctx.set_rule('C12.R4', 'slot selection never promotes a corrupted slot')
    f = ctx.fn('UnrepairedDatabaseHeader::select_primary_slot')
    if f is not None:
        sw = ctx.sites(f, 'DatabaseHeader::swap_primary_slot', exact=2)
        ctx.guarded(f, sw, [Guard(place='self.secondary_corrupted', vals={'false'})], 'the secondary is promoted only if its checksum verified')
        ctx.guarded(f, sw, [Guard(place='two_phase_commit', vals={'false'})], 'no fallback after a two-phase commit')
        # 2PC arm: Ok(..) only if primary not corrupted
        e = core.guard_edges(f, [Guard(place='two_phase_commit', vals={'false'}), Guard(place='self.primary_corrupted', vals={'false'})])
        r = core.reach(f, cut_edges=e, cut_blocks=core.error_blocks(f))
        ctx.check(not any(rb in r['term'] for rb in f.ret_blocks()), 'guard|%s|2pc-corrupt' % f.path, 'with two-phase commit a corrupted primary cannot be accepted', f, f.line)
        # non-2PC: primary kept only if not corrupted
        e = core.guard_edges(f, [Guard(place='self.primary_corrupted', vals={'false'})])
        cb, _ = ctx._cuts(f, sw)
        r = core.reach(f, cut_edges=e, cut_blocks=cb | core.error_blocks(f))
        ctx.check(not any(rb in r['term'] for rb in f.ret_blocks()), 'guard|%s|keep-corrupt-primary' % f.path, 'a corrupted primary is never kept', f, f.line)
    f = ctx.fn('UnrepairedDatabaseHeader::finalize')
    if f is not None:
        sp = ctx.sites(f, 'UnrepairedDatabaseHeader::select_primary_slot', exact=2)
        ctx.must_pass(f, sp, what='every successful finalize selects the primary slot')
    ctx.set_rule('C12.R5', 'entry counts are recounted, not trusted')
    f = ctx.fn('Database::rebuild_allocator_state')
    if f is not None:
        rc = ctx.sites(f, 'Database::with_recounted_length', exact=2)
        for p in rc:
            ctx.flows(f, p, 1, from_call='TableTree::count_tables')
        rl, rcalls, _a, _k = core.flow_sources(f, 0)
        ctx.check(sum(1 for bb in rcalls if core.CallSite(f, bb, f.blocks[bb]['t']).matches('Database::with_recounted_length')) == 2, 'flow|%s|return' % f.path, 'both returned roots come from with_recounted_length', f, f.line)
    ctx.set_rule('C12.R6', 'the clean verdict depends on all observations')
    f = ctx.fn('Database::check_integrity_inner')
    if f is not None:
        # the store `was_clean = false` is control dependent on each of the comparisons
        st = []
        for i, b_ in enumerate(f.blocks):
            for j, s_ in enumerate(b_['s']):
                if s_[0] == 'a' and not s_[1][1] and f.local_name(s_[1][0]) == 'was_clean' and s_[2]['k'] == 'use' and s_[2]['o'][0] == 'k' and s_[2]['o'][2] is False:
                    st.append(Point(f, i, j, 'was_clean = false', s_[3]))
        ctx.check(len(st) == 1, 'floor|%s|was_clean-false' % f.path, 'one `was_clean = false` store', f, f.line)
        ah = ctx.sites(f, TM + '::allocator_hash', exact=2)
        # not-clean is forced when: roots differ, hash differs, rolling back
        for g, what in (([Guard(call=TM + '::allocator_hash', cmp=True)], 'allocator hash comparison'),
                        ([Guard(place='rolling_back_non_durable', vals={'true'})], 'rolling_back_non_durable'),
                        ([Guard(place='old_roots', cmp=True), Guard(place='new_roots', cmp=True)], 'old/new roots comparison')):
            e = core.guard_edges(f, g)
            ctx.check(bool(e), 'guard-missing|%s|%s' % (f.path, what), 'check_integrity_inner tests %s' % what, f, f.line)
            if e and st:
                # some guard edge leads to the store without passing another test's refusing arm: the store is reachable from that edge
                reach_any = False
                for (bb, si) in e:
                    tb = f.succ(bb)[si][0]
                    r = core.reach(f, start=(tb, -1))
                    if core.point_reached(f, r, st[0].bb, st[0].idx):
                        reach_any = True
                ctx.check(reach_any, 'flow|%s|%s' % (f.path, what), '%s can force the not-clean verdict' % what, f, st[0].line)
        # reload result feeds was_clean
        cr = ctx.sites(f, TM + '::clear_cache_and_reload', exact=1)
        # return Ok(was_clean)
        rl, rcalls, _a, _k = core.flow_sources(f, 0)
        names = [core.CallSite(f, bb, f.blocks[bb]['t']) for bb in rcalls]
        ctx.check(any(n.matches(TM + '::clear_cache_and_reload') for n in names), 'flow|%s|reload-clean' % f.path, 'the verdict derives from clear_cache_and_reload (header was clean)', f, f.line)
        ctx.check(any(n.matches('Database::repair_live_state') for n in names) and any(n.matches('Database::durable_state_clean') for n in names), 'flow|%s|promote-verdict' % f.path, 'the promote-path verdict derives from repair_live_state and durable_state_clean', f, f.line)
        # the rebuild happens between the two hashes
        dr = ctx.sites(f, 'Database::do_repair', exact=1)
        if len(ah) == 2 and dr:
            r = core.reach(f, cut_blocks={dr[0].bb})
            first = [p for p in ah if p.bb in r['term']]
            second = [p for p in ah if p.bb not in r['term']]
            ctx.check(len(first) == 1 and len(second) == 1, 'order|%s|hash-around-repair' % f.path, 'one allocator hash is taken before and one after the rebuild', f, dr[0].line)


def _succ_switch_blocks(f, bb):
    """switch blocks reachable from bb without passing another call (the test of bb's result)."""
    out = set()
    dq = [bb]
    seen = set()
    first = True
    while dq:
        b = dq.pop()
        if b in seen:
            continue
        seen.add(b)
        t = f.blocks[b]['t']
        if t['k'] == 'sw':
            out.add(b)
        if t['k'] == 'call' and not first and not core.CallSite(f, b, t).matches(('Try::branch', 'Deref::deref')):
            continue
        first = False
        for tb, _l in f.succ(b):
            dq.append(tb)
    return out


# ------------------------------------------------------------------------------------ C13
def c13_rules(ctx):
    ctx.set_rule('C13.R1', 'compaction refuses with readers/savepoints, re-checked inside the write transaction')
    f = ctx.fn('Database::compact')
    if f is not None:
        bw = ctx.sites(f, 'Database::begin_write', exact=2)
        cp = ctx.sites(f, WT + '::compact_pages', exact=1)
        dr = ctx.sites(f, 'Database::drain_pending_free_pages', exact=2)
        for g in ([false_of(TT + '::any_persistent_savepoint_exists')], [false_of(TT + '::any_savepoint_exists')], [false_of(TT + '::any_user_read_reference_exists')]):
            ctx.guarded(f, bw + cp + dr, g)
        # first begin_write is behind the three pre-checks: identify it as the one that can reach list_persistent_savepoints
        lp = ctx.sites(f, WT + '::list_persistent_savepoints', exact=1)
        ctx.guarded(f, cp + dr, [Guard(call='Iterator::next', vals={'None'})], 'no persistent savepoint inside the write transaction')
        # re-check: from the first begin_write, compact_pages only through a second false edge of each tracker check
        first = None
        for p in bw:
            r = core.reach(f, cut_blocks={p.bb})
            if lp and lp[0].bb not in r['term']:
                first = p
        ctx.check(first is not None, 'shape|%s|first-begin_write' % f.path, 'the first begin_write precedes the in-transaction re-check', f, f.line)
        if first is not None:
            for callee in (TT + '::any_savepoint_exists', TT + '::any_user_read_reference_exists'):
                e = core.guard_edges(f, [false_of(callee)])
                r = core.reach(f, start=(first.bb, first.idx), cut_edges=e)
                ctx.check(cp and cp[0].bb not in r['term'], 'guard|%s|recheck|%s' % (f.path, callee), 'after begin_write, compaction proceeds only through a re-check of %s' % callee, f, first.line)
    ctx.callers_eq(WT + '::compact_pages', {'Database::compact'})
    # what "a user read reference exists" means: the per-id reference COUNT is compared with the number
    # of pending non-durable commits pinning that id (a user reader on a pinned id must still be seen)
    g = ctx.fn(TT + '::any_user_read_reference_exists')
    if g is not None:
        trues = []
        for i, b_ in enumerate(g.blocks):
            for j, s_ in enumerate(b_['s']):
                if s_[0] == 'a' and s_[1][0] == 0 and not s_[1][1] and s_[2]['k'] == 'use' and s_[2]['o'][0] == 'k' and s_[2]['o'][2] is True:
                    trues.append(Point(g, i, j, 'return true', s_[3]))
        ctx.check(len(trues) >= 1, 'floor|%s|true' % g.path, 'any_user_read_reference_exists has a `true` result', g, g.line)
        ctx.guarded_cmp(g, trues, [Guard(call='Iterator::count', cmp=True)], '`true` is control-dependent on a comparison with the number of pending pins of that id')
        ctx.held(g, ctx.sites(g, 'Iterator::count', exact=1), TTSTATE)
    ctx.set_rule('C13.R2', 'compaction publishes only through ordinary commits; pending frees drained with two-phase commits')
    f = ctx.fn('Database::drain_pending_free_pages')
    if f is not None:
        tp = ctx.sites(f, WT + '::set_two_phase_commit', exact=1)
        cm = ctx.sites(f, WT + '::commit', exact=1)
        for p in tp:
            ctx.const_arg(f, p, 1, True)
        ctx.order(f, tp, cm)
    f = ctx.fn('Database::compact')
    if f is not None:
        ctx.no_direct(f, [TM + '::commit', TM + '::non_durable_commit', PA + '::free', TM + '::free'], 'compact() itself touches no page state')
        # every compaction pass -- including the last one that makes no progress, whose probe
        # allocation may have grown the file -- is followed by a drain-and-trim commit
        cp_ = ctx.sites(f, WT + '::compact_pages', exact=1)
        dr_ = ctx.sites(f, 'Database::drain_pending_free_pages', floor=2)
        if cp_:
            ctx.must_pass(f, dr_, start=cp_[0], what='every pass of compact_pages is followed by drain_pending_free_pages before compact() returns')
        for p_ in dr_:
            term = core.sym(f).operand(p_.call.t['a'][1])
            ctx.check(term[0] == 'agg' and term[2] == 'Maximum', 'const|%s|shrink-policy' % f.path, 'the drain commits trim the file (ShrinkPolicy::Maximum)', f, p_.line)
    ctx.set_rule('C13.R3', 'relocation bookkeeping')
    for nm in ('UntypedBtreeMut::relocate_helper', 'multimap_btree::relocate_subtrees'):
        f = ctx.fn(nm)
        if f is not None:
            fu = ctx.sites(f, PA + '::free_if_uncommitted', floor=1)
            pu = ctx.sites(f, 'Vec::push', floor=1)
            ctx.guarded(f, pu, [false_of(PA + '::free_if_uncommitted')], 'a committed old page is queued, not freed')
    f = ctx.fn(WT + '::compact_pages')
    if f is not None:
        fr = ctx.sites(f, PA + '::free', exact=1)
        ctx.guarded_cmp(f, fr, [Guard(call='PageMut::get_page_number', cmp=True), Guard(call='PagePath::page_number', cmp=True), Guard(call='PartialOrd::lt', vals={'false'})], 'probe page freed on the not-lower arm')
        rt = ctx.sites(f, 'TableTreeMut::relocate_tables', exact=2)
        ctx.must_pass(f, rt, what='every successful compaction pass relocates both trees')


# ------------------------------------------------------------------------------------ C14
def c14_rules(ctx):
    ctx.set_rule('C14.R1', 'every source of new free space re-marks the region tracker')
    exp_free = {TM + '::free_helper'}
    ctx.callers_eq('BuddyAllocator::free', exp_free | {'BuddyAllocator::free', 'BuddyAllocator::free_inner', 'BuddyAllocator::resize', 'BuddyAllocator::new'}, allow_missing={'BuddyAllocator::free', 'BuddyAllocator::free_inner', 'BuddyAllocator::resize', 'BuddyAllocator::new'})
    ctx.callers_eq('BuddyAllocator::resize', {'Allocators::resize_to'})
    ctx.callers_eq('BuddyAllocator::new', {'Allocators::resize_to', 'Allocators::new', 'BuddyAllocator::from_bytes'}, allow_missing={'BuddyAllocator::from_bytes'})
    n = 0
    f = ctx.fn(TM + '::free_helper')
    if f is not None:
        fr = ctx.sites(f, 'BuddyAllocator::free', exact=1)
        mf = ctx.sites(f, 'RegionTracker::mark_free', exact=1)
        ctx.must_pass(f, mf, start=fr[0] if fr else None, exits='any', what='a freed block is always marked free in the tracker')
        ctx.held(f, fr + mf, 'self.state')
        ctx.set_rule('C14.R2', 'the order marked is the order obtained')
        for p in mf:
            ctx.flows(f, p, 1, from_call='BuddyAllocator::free', what='mark_free order = merged order returned by BuddyAllocator::free')
            ctx.flows(f, p, 2, from_arg='page')
        ctx.set_rule('C14.R1', '')
        n += 1
    f = ctx.fn('Allocators::resize_to')
    if f is not None:
        rz = ctx.sites(f, 'BuddyAllocator::resize', exact=2)
        nw = ctx.sites(f, 'BuddyAllocator::new', exact=1)
        mf = ctx.sites(f, 'RegionTracker::mark_free', exact=2)
        # the growing resize (followed by highest_free_order) and the new allocator must reach mark_free
        hf = ctx.sites(f, 'BuddyAllocator::highest_free_order', exact=2)
        grow = [p for p in rz if any(h.bb in core.reach(f, start=(p.bb, p.idx))['term'] for h in hf)]
        ctx.check(len(grow) == 1, 'shape|%s|grow-resize' % f.path, 'one growing BuddyAllocator::resize in resize_to', f, f.line)
        for p in grow + nw:
            ctx.must_pass(f, mf, start=p, exits='any', what='%s is always followed by mark_free' % p.desc)
            n += 1
        ctx.set_rule('C14.R2', 'the order marked is the order obtained')
        for p in mf:
            ctx.flows(f, p, 1, from_call='BuddyAllocator::highest_free_order')
        ctx.set_rule('C14.R3', 'a region is marked full only on evidence')
        mfull = ctx.sites(f, 'RegionTracker::mark_full', exact=1)
        for p in mfull:
            ctx.flows(f, p, 2, from_call='DatabaseLayout::num_regions', what='regions marked full are the removed ones (index from new_layout.num_regions()..)')
        ctx.guarded(f, mfull, [Guard(place='shrink', vals={'true'})])
    # the order reported by a free is where merging stopped: the requested order when nothing merged, otherwise
    # whatever the recursion into the next order reports -- through BuddyAllocator::free unchanged
    ctx.set_rule('C14.R2', 'the order marked is the order obtained')
    for pat, inner in (('BuddyAllocator::free_inner', 'BuddyAllocator::free_inner'), ('BuddyAllocator::free', 'BuddyAllocator::free_inner')):
        f = ctx.fn(pat)
        if f is None:
            continue
        s_ = core.sym(f)
        rec = ctx.sites(f, inner, exact=1)
        rec_bbs = {p.bb for p in rec}
        order_arg = None
        for i_ in range(1, f.argc + 1):
            if f.local_name(i_) == 'order':
                order_arg = i_
        rets = []
        for d in f.defs.get(0, []):
            t = ('call', d[1]) if d[0] == 'call' else s_.def_term(d, 0)
            rets.append(t)
        via_rec = [t for t in rets if t[0] == 'call' and t[1] in rec_bbs]
        other = [t for t in rets if not (t[0] == 'call' and t[1] in rec_bbs)]
        ok = len(via_rec) == 1 and all(t == ('arg', order_arg) for t in other) and (pat.endswith('free_inner') or not other)
        ctx._ob(ok, ctx.sample('arg-flow', f, f.line, 'returned order is the requested order or the order the merge recursion reports'))
        if not ok:
            ctx.violate('arg-flow|%s|merged-order' % f.path, 'the order reported by %s is not (only) the requested order or the result of %s: the region tracker would be told a smaller block than the one that became free (%s)' % (pat, inner, [s_.describe(t) for t in rets]), f, f.line)
    ctx.set_rule('C14.R1', 'every source of new free space re-marks the region tracker')
    f = ctx.fn('Allocators::new')
    if f is not None:
        nw = ctx.sites(f, 'BuddyAllocator::new', exact=1)
        mf = ctx.sites(f, 'RegionTracker::mark_free', exact=1)
        ctx.must_pass(f, mf, start=nw[0] if nw else None, exits='any', what='a new region is marked free')
        ctx.set_rule('C14.R2', '')
        for p in mf:
            ctx.flows(f, p, 1, from_call='BuddyAllocator::get_max_order')
        n += 1
    ctx.set_rule('C14.R1', '')
    ctx.check(n >= 4, 'floor|free-space-sources', 'the 4 confirmed sources of free space were analysed (found %d)' % n)
    ctx.callers_eq('RegionTracker::mark_free', {TM + '::free_helper', 'Allocators::resize_to', 'Allocators::new'})
    ctx.set_rule('C14.R3', 'a region is marked full only on evidence')
    ctx.callers_eq('RegionTracker::mark_full', {TM + '::allocate_helper_retry', 'Allocators::resize_to'})
    f = ctx.fn(TM + '::allocate_helper_retry')
    if f is not None:
        mfull = ctx.sites(f, 'RegionTracker::mark_full', exact=1)
        al = ctx.sites(f, ['BuddyAllocator::alloc', 'BuddyAllocator::alloc_lowest'], exact=2)
        ctx.guarded(f, mfull, [Guard(call='BuddyAllocator::alloc', vals={'None'}), Guard(call='BuddyAllocator::alloc_lowest', vals={'None'}), Guard(place='r', vals={'None'})], 'mark_full only after the allocation attempt returned None')
        ff = ctx.sites(f, 'RegionTracker::find_free', exact=1)
        gr = ctx.sites(f, 'InMemoryState::get_region_mut', exact=1)
        for p in gr:
            ctx.flows(f, p, 1, from_call='RegionTracker::find_free', what='the allocation attempt uses the region find_free returned')
        for p in mfull:
            ctx.flows(f, p, 2, from_call='RegionTracker::find_free')
            ctx.flows(f, p, 1, from_arg='required_order')
        for p in al:
            ctx.flows(f, p, 1, from_arg='required_order')
        for p in ff:
            ctx.flows(f, p, 1, from_arg='required_order')


# ------------------------------------------------------------------------------------ C10
def c10_rules(ctx):
    ctx.set_rule('C10.R1', 'one checksum definition: writer and verifier use the same functions')
    ctx.callers_eq('page_manager::xxh3_checksum', {'btree_base::leaf_checksum', 'btree_base::branch_checksum', 'TransactionHeader::to_bytes', 'TransactionHeader::from_bytes', 'U64GroupedBitmap::xxh3_hash'})
    ctx.callers_eq('btree_base::leaf_checksum', {'UntypedBtreeMut::finalize_dirty_checksums_helper', 'RawBtree::verify_checksum_helper'})
    ctx.callers_eq('btree_base::branch_checksum', {'UntypedBtreeMut::finalize_dirty_checksums_helper', 'RawBtree::verify_checksum_helper'})
    f = ctx.fn('page_manager::xxh3_checksum')
    if f is not None:
        h = ctx.sites(f, 'hash128_with_seed', exact=1)
        for p in h:
            ctx.const_arg(f, p, 1, 0, 'seed 0')
            ctx.flows(f, p, 0, from_arg='data')
    for nm in ('leaf_checksum', 'branch_checksum'):
        f = ctx.fn('btree_base::' + nm)
        if f is not None:
            x = ctx.sites(f, 'page_manager::xxh3_checksum', exact=1)
            ctx.must_pass(f, x, what='%s succeeds only by hashing the page' % nm)
    ctx.set_rule('C10.R2', 'bottom-up finalisation over uncommitted pages only')
    f = ctx.fn('UntypedBtreeMut::finalize_dirty_checksums_helper')
    if f is not None:
        rec = ctx.sites(f, 'UntypedBtreeMut::finalize_dirty_checksums_helper', exact=1)
        ctx.guarded(f, rec, [true_of(PA + '::uncommitted')], 'recursion only into uncommitted children')
        wc = ctx.sites(f, 'BranchMutator::write_child_page', exact=1)
        bc = ctx.sites(f, 'btree_base::branch_checksum', exact=1)
        lc = ctx.sites(f, 'btree_base::leaf_checksum', exact=1)
        if bc and rec:
            r0 = core.reach(f, start=(bc[0].bb, bc[0].idx))
            ctx.check(rec[0].bb not in r0['term'], 'order|%s|recursion-after-hash' % f.path, 'no child is finalized after the branch checksum was computed', f, bc[0].line)
        # the branch hash is taken after the child checksums were written: no write_child_page reachable after branch_checksum
        if bc and wc:
            r = core.reach(f, start=(bc[0].bb, bc[0].idx))
            ctx.check(wc[0].bb not in r['term'], 'order|%s|write-after-hash' % f.path, 'no child pointer is rewritten after the branch checksum was computed', f, wc[0].line)
        for p in wc:
            ctx.flows(f, p, 3, from_call='UntypedBtreeMut::finalize_dirty_checksums_helper', what='stored child checksum is the freshly computed one')
        gm = ctx.sites(f, PA + '::get_page_mut', exact=1)
        ctx.guarded(f, gm, [true_of(PA + '::uncommitted')])
        ctx.must_pass(f, lc + bc, what='every success path computes a leaf or branch checksum')
        # every uncommitted child IS finalized: on the true edge of the in-loop uncommitted() test the
        # recursion cannot be skipped before the loop advances or the function returns
        nxt = [c for c in f.calls if c.matches('Iterator::next')]
        unc = ctx.sites(f, PA + '::uncommitted', exact=2)
        e_false = core.guard_edges(f, [false_of(PA + '::uncommitted')])
        inloop = []
        for u in unc:
            if any(u.bb in core.reach(f, start=(n.bb, len(f.blocks[n.bb]['s']) - 1))['term'] for n in nxt):
                inloop.append(u)
        ctx.check(len(inloop) == 1 and len(nxt) >= 1, 'shape|%s|in-loop-uncommitted' % f.path, 'one uncommitted() test inside the child loop', f, f.line)
        for u in inloop:
            r1 = core.reach(f, start=(u.bb, u.idx), cut_edges=e_false, cut_blocks={p_.bb for p_ in rec} | core.error_blocks(f))
            skipped = [n for n in nxt if n.bb in r1['term']] or [rb for rb in f.ret_blocks() if rb in r1['term']]
            ctx._ob(not skipped, ctx.sample('must-pass', f, u.line, 'an uncommitted child is always finalized before the loop advances'))
            if skipped:
                ctx.violate('must-pass|%s|dirty-child-skipped' % f.path, 'an uncommitted child page can be skipped by the checksum finalisation (the loop advances on the uncommitted() true edge without the recursive call): a DEFERRED child checksum would be committed', f, u.line)
    f = ctx.fn('UntypedBtreeMut::finalize_dirty_checksums')
    if f is not None:
        h = ctx.sites(f, 'UntypedBtreeMut::finalize_dirty_checksums_helper', exact=1)
        ctx.guarded(f, h, [true_of(PA + '::uncommitted')], 'clean roots are left alone')
        # dirty root => helper not skippable
        e_f = core.guard_edges(f, [false_of(PA + '::uncommitted'), Guard(place='self.root', vals={'None'}), Guard(place='root', vals={'None'})])
        ctx.must_pass(f, h, extra_cut_edges=e_f, what='an uncommitted root is always re-hashed')
    ctx.set_rule('C10.R3', 'table roots are finalized and flushed into the catalog before the catalog is checksummed')
    f = ctx.fn('TableTreeMut::flush_inner')
    if f is not None:
        a = ctx.sites(f, 'TableTreeMut::flush_table_root_updates', exact=1)
        b = ctx.sites(f, 'TableTreeMut::finalize_dirty_checksums', exact=1)
        ctx.order(f, a, b)
        ctx.guarded(f, b, [ok('TableTreeMut::flush_table_root_updates')])
        ctx.must_pass(f, b)
    f = ctx.fn('TableTreeMut::flush_and_close')
    if f is not None:
        fi = ctx.sites(f, 'TableTreeMut::flush_inner', exact=1)
        ctx.must_pass(f, fi, what='flush_and_close always flushes')
        # the Ok result carries flush_inner's header
    f = ctx.fn('TableTreeMut::flush_table_root_updates')
    if f is not None:
        ins = ctx.sites(f, 'BtreeMut::insert', exact=1)
        fa = ctx.sites(f, 'UntypedBtreeMut::finalize_dirty_checksums', exact=1)
        fb = ctx.sites(f, 'multimap_btree::finalize_tree_and_subtree_checksums', exact=1)
        ctx.guarded(f, ins, [ok('UntypedBtreeMut::finalize_dirty_checksums'), ok('multimap_btree::finalize_tree_and_subtree_checksums')], 'a definition is written only after its tree (and subtrees) were finalized')
        # per loop iteration: from the loop head (take of pending updates iterator next) -> insert must pass one of the finalizers
        nx = ctx.sites(f, 'Iterator::next', exact=1)
        if nx:
            ctx.order(f, fa + fb, ins, 'no insert without a finalize in the same iteration', start=nx[0])
        for p in fa:
            pass
        tk = ctx.sites(f, 'mem::take', exact=1)
    for nm in ('open_table_and_flush_table_root', 'create_table_and_flush_table_root'):
        f = ctx.fn('TableTreeMut::' + nm)
        if f is not None:
            fd = ctx.sites(f, 'BtreeMut::finalize_dirty_checksums', exact=1)
            ii = ctx.sites(f, 'BtreeMut::insert_inplace', exact=1)
            ctx.guarded(f, ii, [ok('BtreeMut::finalize_dirty_checksums')], 'root flushed in place only after the table checksums were finalized')
            ctx.must_pass(f, ii, what='the table root always reaches the catalog')
            as_ = [c for c in f.calls if c.matches('BTreeMap::is_empty')]
    f = ctx.fn('multimap_btree::finalize_tree_and_subtree_checksums')
    if f is not None:
        dv = ctx.sites(f, 'UntypedBtreeMut::dirty_leaf_visitor', exact=1)
        fd = ctx.sites(f, 'UntypedBtreeMut::finalize_dirty_checksums', exact=1)
        ctx.guarded(f, fd, [ok('UntypedBtreeMut::dirty_leaf_visitor')], 'outer tree finalized only after all dirty subtrees were')
        ctx.must_pass(f, fd)
        for cl in f.closures:
            sub = cl.calls_to('UntypedBtreeMut::finalize_dirty_checksums')
            if sub:
                rp = [cpoint(c) for c in cl.calls_to('LeafPageMut::replace_value')]
                ctx.check(len(rp) == 1, 'floor|%s|replace_value' % cl.path, 'the subtree root is written back into the leaf', cl, cl.line)
                ctx.guarded(cl, [cpoint(c) for c in sub], [true_of(PA + '::uncommitted')], 'only uncommitted subtrees are re-hashed')
    ctx.set_rule('C10.R5', 'the slot checksum covers the slot')
    f = ctx.fn('TransactionHeader::to_bytes')
    if f is not None:
        xx = ctx.sites(f, 'page_manager::xxh3_checksum', exact=1)
        cps = ctx.sites(f, 'copy_from_slice', floor=3)
        # after the checksum, exactly one copy_from_slice (the checksum itself) and no indexed store
        if xx:
            r = core.reach(f, start=(xx[0].bb, xx[0].idx))
            after = [p for p in cps if p.bb in r['term']]
            ctx.check(len(after) == 1, 'order|%s|stores-after-checksum' % f.path, 'exactly one slice write (the checksum bytes) happens after the slot checksum is computed (found %d)' % len(after), f, xx[0].line)
            for p in after:
                ctx.flows(f, p, 1, from_call='page_manager::xxh3_checksum')
            st_after = 0
            for bb in r['term']:
                for j, s_ in enumerate(f.blocks[bb]['s']):
                    if s_[0] == 'a' and s_[1][1] and any(x.startswith('[') for x in s_[1][1]) and f.local_name(s_[1][0]) == 'result':
                        if bb != xx[0].bb:
                            st_after += 1
            ctx.check(st_after == 0, 'order|%s|byte-stores-after-checksum' % f.path, 'no byte of the slot is stored after its checksum was computed', f, xx[0].line)
    for c in ('tree_store::page_store::header::TRANSACTION_SIZE', 'tree_store::page_store::header::SLOT_CHECKSUM_OFFSET'):
        ctx.check(c in ctx.facts.consts and ctx.facts.consts[c]['v'] is not None, 'const|%s' % c, 'constant %s evaluated: %s' % (c, ctx.facts.consts.get(c, {}).get('v')))
    if all(c in ctx.facts.consts for c in ('tree_store::page_store::header::TRANSACTION_SIZE', 'tree_store::page_store::header::SLOT_CHECKSUM_OFFSET')):
        ts = ctx.facts.consts['tree_store::page_store::header::TRANSACTION_SIZE']['v']
        so = ctx.facts.consts['tree_store::page_store::header::SLOT_CHECKSUM_OFFSET']['v']
        lf = ctx.facts.consts.get('tree_store::page_store::header::TRANSACTION_LAST_FIELD', {}).get('v')
        ctx.check(so == ts - 16, 'const|slot-checksum-offset', 'SLOT_CHECKSUM_OFFSET == TRANSACTION_SIZE - 16')
        ctx.check(lf is not None and lf <= so, 'const|fields-before-checksum', 'every slot field ends before the checksum (TRANSACTION_LAST_FIELD=%s <= %s)' % (lf, so))
    ctx.set_rule('C10.R6', 'relocation re-defers checksums')
    deferred = ctx.facts.consts.get('tree_store::btree_base::DEFERRED', {}).get('v')
    for nm in ('UntypedBtreeMut::relocate_helper', 'multimap_btree::relocate_subtrees'):
        f = ctx.fn(nm)
        if f is not None:
            # every tuple/Some((page, checksum)) returned after a get_page_mut carries DEFERRED
            gm = ctx.sites(f, PA + '::get_page_mut', exact=1)
            okk = False
            for i, b_ in enumerate(f.blocks):
                for s_ in b_['s']:
                    if s_[0] == 'a' and s_[2]['k'] == 'agg' and s_[2]['a'] == '(tuple)' and len(s_[2]['o']) == 2:
                        o = s_[2]['o'][1]
                        if o[0] == 'k' and len(o) > 3 and o[3] and o[3].endswith('DEFERRED'):
                            okk = True
            ctx.check(okk, 'const|%s|DEFERRED' % f.path, 'the moved page is returned with the DEFERRED checksum', f, f.line)


# ------------------------------------------------------------------------------------ C12 tree side
def c12_tree_rules(ctx):
    ctx.set_rule('C12.R1b', 'every tree of the catalog is verified, per definition kind')
    f = ctx.fn('TableTree::verify_checksums')
    if f is not None:
        mv = ctx.sites(f, 'Btree::verify_checksum', exact=1)
        rv = ctx.sites(f, 'RawBtree::verify_checksum', exact=1)
        mm = ctx.sites(f, 'multimap_btree::verify_tree_and_subtree_checksums', exact=1)
        trues = []
        for i, b_ in enumerate(f.blocks):
            for j, s_ in enumerate(b_['s']):
                if s_[0] == 'a' and s_[2]['k'] == 'agg' and s_[2]['v'] == 'Ok' and s_[2]['o'] and s_[2]['o'][0][0] == 'k' and s_[2]['o'][0][2] is True:
                    trues.append(Point(f, i, j, 'return Ok(true)', s_[3]))
        ctx.check(len(trues) == 1, 'floor|%s|ok-true' % f.path, 'one Ok(true) return', f, f.line)
        ctx.guarded(f, trues, [true_of('Btree::verify_checksum')], 'Ok(true) only if the catalog tree verified')
        ctx.guarded(f, rv, [Guard(place='definition', vals={'Normal'})])
        ctx.guarded(f, mm, [Guard(place='definition', vals={'Multimap'})])
        # from each per-table verification, a false result cannot reach Ok(true)
        for p, callee in ((rv, 'RawBtree::verify_checksum'), (mm, 'multimap_btree::verify_tree_and_subtree_checksums')):
            if p:
                e_t = core.guard_edges(f, [true_of(callee)])
                r = core.reach(f, start=(p[0].bb, p[0].idx), cut_edges=e_t)
                # the loop may continue only through the true edge
                nx = [c for c in f.calls if c.matches('Iterator::next')]
                ctx.check(all(c.bb not in r['term'] for c in nx) and not any(core.point_reached(f, r, t.bb, t.idx) for t in trues),
                          'guard|%s|%s-false' % (f.path, callee), 'a table that fails verification ends the walk with false', f, p[0].line)
        # normal table with a root is always verified: on the Normal arm with Some root, verify not skippable
        e_skip = core.guard_edges(f, [Guard(place='definition', vals={'Multimap'}), Guard(place='table_root', vals={'None'})])
        # every definition kind is dispatched: switch on definition discriminant has both variants
        kinds = set()
        for bb in range(f.nb):
            for fs in (core.edge_facts(f, bb) if f.blocks[bb]['t']['k'] == 'sw' else []):
                for fa in fs:
                    if fa.kind == 'place' and fa.desc.endswith('definition') and len(fa.vals) == 1:
                        kinds |= fa.vals
        ctx.check(kinds == {'Normal', 'Multimap'}, 'exhaustive|%s' % f.path, 'both definition kinds are dispatched (found %s)' % sorted(kinds), f, f.line)
    f = ctx.fn('multimap_btree::verify_tree_and_subtree_checksums')
    if f is not None:
        vs = ctx.sites(f, 'RawBtree::verify_checksum', exact=2)
        ps = ctx.sites(f, 'multimap_btree::parse_subtree_roots', exact=1)
        ctx.must_pass(f, ps, extra_cut_edges=core.guard_edges(f, [Guard(place='root', vals={'None'}), Guard(call='Iterator::next', vals={'None'})]), what='subtree roots of every page are parsed') if False else None
        e_t = core.guard_edges(f, [true_of('RawBtree::verify_checksum')])
        trues = []
        for i, b_ in enumerate(f.blocks):
            for j, s_ in enumerate(b_['s']):
                if s_[0] == 'a' and s_[2]['k'] == 'agg' and s_[2]['v'] == 'Ok' and s_[2]['o'] and s_[2]['o'][0][0] == 'k' and s_[2]['o'][0][2] is True:
                    trues.append(Point(f, i, j, 'return Ok(true)', s_[3]))
        for v in vs:
            r = core.reach(f, start=(v.bb, v.idx), cut_edges=e_t)
            ctx.check(not any(core.point_reached(f, r, t.bb, t.idx) for t in trues) and not (ps and ps[0].bb in r['term'] and v.bb != ps[0].bb and False), 'guard|%s|false-propagates' % f.path, 'a failed (sub)tree verification cannot lead to Ok(true)', f, v.line)
        # the subtree roots are parsed from EVERY page of the outer tree, not just its root page
        it = ctx.sites(f, 'AllPageNumbersBtreeIter::new', exact=1)
        gp = ctx.sites(f, 'PageResolver::get_page', exact=1)
        for p_ in gp:
            ctx.flows(f, p_, 1, from_call='AllPageNumbersBtreeIter::new', what='pages whose subtree roots are verified come from the walk over all pages of the table tree')
        for p_ in ps:
            ctx.flows(f, p_, 0, from_call='PageResolver::get_page')
        # with a Some root the outer verification is not skippable
        e_none = core.guard_edges(f, [Guard(place='root', vals={'None'})])
        outer = [v for v in vs if ps and v.bb not in core.reach(f, start=(ps[0].bb, ps[0].idx))['term']]
        ctx.check(len(outer) == 1, 'shape|%s|outer-verify' % f.path, 'one verification of the outer tree precedes the subtree walk', f, f.line)
    ctx.set_rule('C12.R2', 'no true without a comparison')
    f = ctx.fn('RawBtree::verify_checksum_helper')
    if f is not None:
        lc = ctx.sites(f, 'btree_base::leaf_checksum', exact=1)
        bc = ctx.sites(f, 'btree_base::branch_checksum', exact=1)
        rec = ctx.sites(f, 'RawBtree::verify_checksum_helper', exact=1)
        # `true` results: const true assigned to the match result / Ok(true)
        trues = []
        for i, b_ in enumerate(f.blocks):
            for j, s_ in enumerate(b_['s']):
                if s_[0] == 'a' and s_[2]['k'] == 'use' and s_[2]['o'][0] == 'k' and s_[2]['o'][2] is True and f.local_ty(s_[1][0]) == 'bool' and not s_[1][1]:
                    trues.append(Point(f, i, j, 'result = true', s_[3]))
        ctx.check(len(trues) >= 1, 'floor|%s|true' % f.path, 'a `true` result exists (branch arm)', f, f.line)
        cb, cp = ctx._cuts(f, lc + bc)
        r = core.reach(f, cut_blocks=cb)
        ctx.check(not any(core.point_reached(f, r, t.bb, t.idx) for t in trues), 'must-pass|%s|compare' % f.path, 'no `true` without computing a leaf or branch checksum', f, f.line)
        # the leaf arm yields the comparison itself
        eqs = [c for c in f.calls if c.matches(('PartialEq::eq', 'PartialEq::ne'))]
        cmp_stmts = sum(1 for b_ in f.blocks for s_ in b_['s'] if s_[0] == 'a' and s_[2]['k'] == 'bin' and s_[2]['op'] in ('Eq', 'Ne'))
        ctx.check(len(eqs) + cmp_stmts >= 2, 'floor|%s|comparisons' % f.path, 'leaf and branch arms each compare expected with computed (found %d)' % (len(eqs) + cmp_stmts), f, f.line)
        # branch: true only after every child verified: from rec false-edge no true
        e_t = core.guard_edges(f, [true_of('RawBtree::verify_checksum_helper')])
        # the verdict of every child is acted upon: either tested (early exit on false) or and-accumulated
        accum = any(st[0] == 'a' and st[2]['k'] == 'bin' and st[2]['op'] in ('BitAnd',) for b_ in f.blocks for st in b_['s'])
        ctx.check(bool(e_t) or accum, 'guard-missing|%s|child-verdict' % f.path, 'the verdict of each child verification is tested (or and-accumulated), not merely overwritten', f, rec[0].line if rec else f.line)
        if rec:
            r = core.reach(f, start=(rec[0].bb, rec[0].idx), cut_edges=e_t)
            ctx.check(not any(core.point_reached(f, r, t.bb, t.idx) for t in trues), 'guard|%s|child-false' % f.path, 'a child that fails verification makes the parent fail', f, rec[0].line)
            for p in rec:
                ctx.flows(f, p, 1, from_call='BranchAccessor::child_page')
                ctx.flows(f, p, 2, from_call='BranchAccessor::child_checksum')
        # recursion follows the branch comparison: rec only after branch_checksum
        ctx.order(f, bc, rec, 'children are visited only after the branch page itself was hashed')
        # unknown page type => false: the otherwise arm of the type switch assigns false
    f = ctx.fn('RawBtree::verify_checksum')
    if f is not None:
        h = ctx.sites(f, 'RawBtree::verify_checksum_helper', exact=1)
        e_none = core.guard_edges(f, [Guard(place='self.root', vals={'None'})])
        ctx.must_pass(f, h, extra_cut_edges=e_none, what='a tree with a root is always walked')
        for p in h:
            ctx.flows(f, p, 2, from_arg='self', what='expected checksum comes from the stored header')
    f = ctx.fn('Btree::verify_checksum')
    if f is not None:
        ctx.must_pass(f, ctx.sites(f, 'RawBtree::verify_checksum', exact=1))


# ------------------------------------------------------------------------------------ C17
def c17_rules(ctx):
    ctx.set_rule('C17.R1', 'no typed handle without the type check, with unchanged generic arguments at every hop')
    hops = [
        ('ReadTransaction::open_table', 'TableTree::get_table', ['K', 'V']),
        ('ReadTransaction::open_multimap_table', 'TableTree::get_table', ['K', 'V']),
        ('TableNamespace::open_table', 'TableNamespace::inner_open', ['K', 'V']),
        ('TableNamespace::open_multimap_table', 'TableNamespace::inner_open', ['K', 'V']),
        ('TableNamespace::inner_open', 'TableTreeMut::get_or_create_table', ['K', 'V']),
        ('TableTreeMut::get_or_create_table', 'TableTreeMut::get_table', ['K', 'V']),
        ('TableTreeMut::get_table', 'TableTree::get_table', ['K', 'V']),
        ('TableTree::get_table', 'InternalTableDefinition::check_match', ['K', 'V']),
        ('SystemNamespace::open_system_table', 'TableTreeMut::get_or_create_table', ['K', 'V']),
    ]
    for caller, callee, ga in hops:
        f = ctx.fn(caller)
        if f is None:
            continue
        s_ = ctx.sites(f, callee, exact=1)
        for p in s_:
            got = [g for g in (p.call.t.get('ga') or []) if not g.startswith("'")]
            ctx.check(got == ga, 'generic-args|%s|%s' % (f.path, callee), '%s calls %s::<%s> with its own type parameters (found <%s>)' % (caller, callee, ', '.join(ga), ', '.join(got)), f, p.line)
        ctx.must_pass(f, s_, what='%s always passes %s' % (caller, callee)) if caller not in ('TableTree::get_table',) else None
    for nm, ctor in (('open_table', 'ReadOnlyTable::new'), ('open_multimap_table', 'ReadOnlyMultimapTable::new')):
        f = ctx.fn('ReadTransaction::' + nm)
        if f is not None:
            c = ctx.sites(f, ctor, exact=1)
            ctx.guarded(f, c, [ok('TableTree::get_table')], 'typed handle only after get_table::<K,V> returned Ok')
            got = [g for g in (c[0].call.t.get('ga') or []) if not g.startswith("'")] if c else []
            ctx.check(got == ['K', 'V'], 'generic-args|%s|ctor' % f.path, 'the handle is built for the same K,V', f, f.line)
    for nm in ('open_untyped_table', 'open_untyped_multimap_table'):
        f = ctx.fn('ReadTransaction::' + nm)
        if f is not None:
            g = ctx.sites(f, 'TableTree::get_table_untyped', exact=1)
            ctx.must_pass(f, g)
    f = ctx.fn('TableTree::get_table')
    if f is not None:
        cm = ctx.sites(f, 'InternalTableDefinition::check_match', exact=1)
        gu = ctx.sites(f, 'TableTree::get_table_untyped', exact=1)
        # Some(definition) only behind check_match Ok
        somes = []
        for i, b_ in enumerate(f.blocks):
            for j, s2 in enumerate(b_['s']):
                if s2[0] == 'a' and s2[2]['k'] == 'agg' and s2[2]['v'] == 'Some' and s2[2]['a'].endswith('Option'):
                    somes.append(Point(f, i, j, 'Some(definition)', s2[3]))
        ctx.check(len(somes) >= 1, 'floor|%s|some' % f.path, 'get_table returns Some(definition)', f, f.line)
        ctx.guarded(f, somes, [ok('InternalTableDefinition::check_match')], 'a definition is handed out only after check_match::<K,V> returned Ok')
    f = ctx.fn('TableTree::get_table_untyped')
    if f is not None:
        cm = ctx.sites(f, 'InternalTableDefinition::check_match_untyped', exact=1)
        somes = []
        for i, b_ in enumerate(f.blocks):
            for j, s2 in enumerate(b_['s']):
                if s2[0] == 'a' and s2[2]['k'] == 'agg' and s2[2]['v'] == 'Some' and s2[2]['a'].endswith('Option'):
                    somes.append(Point(f, i, j, 'Some(definition)', s2[3]))
        ctx.guarded(f, somes, [ok('InternalTableDefinition::check_match_untyped')])
        for p in cm:
            ctx.flows(f, p, 1, from_arg='table_type')
    f = ctx.fn('InternalTableDefinition::check_match')
    if f is not None:
        cu = ctx.sites(f, 'InternalTableDefinition::check_match_untyped', exact=1)
        oks = []
        for i, b_ in enumerate(f.blocks):
            for j, s2 in enumerate(b_['s']):
                if s2[0] == 'a' and s2[1][0] == 0 and not s2[1][1] and s2[2]['k'] == 'agg' and s2[2]['v'] == 'Ok':
                    oks.append(Point(f, i, j, 'return Ok', s2[3]))
        ctx.check(len(oks) == 1, 'floor|%s|ok' % f.path, 'one Ok return', f, f.line)
        ctx.guarded(f, oks, [ok('InternalTableDefinition::check_match_untyped')])
        # each of the four observations reaches a test with a refusing arm that dominates Ok
        for callee in ('Value::type_name', 'Value::fixed_width'):
            cs = ctx.sites(f, callee, floor=2)
        for callee, what in (('Value::type_name', 'type names'), ('Value::fixed_width', 'fixed widths')):
            g = [Guard(call=callee, cmp=True)]
            e = core.guard_edges(f, g)
            ctx.check(len(e) >= 2, 'guard-missing|%s|%s' % (f.path, callee), 'check_match compares the %s of K and V' % what, f, f.line)
        # key_matches / value_matches both required
        for nm in ('key_matches', 'value_matches'):
            ctx.guarded(f, oks, [Guard(place=nm, vals={'true'})], 'Ok only if %s' % nm)
        # widths: Ok only via the non-refusing arm of each width comparison: cut each comparison's refusing edge -> still reachable; instead check the TypeDefinitionChanged errors exist for K and V
        errs = sum(1 for b_ in f.blocks for s2 in b_['s'] if s2[0] == 'a' and s2[2]['k'] == 'agg' and s2[2]['v'] == 'TypeDefinitionChanged')
        ctx.check(errs >= 2, 'floor|%s|width-errors' % f.path, 'both width mismatches are refused (TypeDefinitionChanged x%d)' % errs, f, f.line)
        mism = sum(1 for b_ in f.blocks for s2 in b_['s'] if s2[0] == 'a' and s2[2]['k'] == 'agg' and s2[2]['v'] == 'TableTypeMismatch')
        ctx.check(mism >= 1, 'floor|%s|type-mismatch' % f.path, 'type-name mismatch is refused', f, f.line)
        for callee in ('InternalTableDefinition::private_get_fixed_key_size', 'InternalTableDefinition::private_get_fixed_value_size'):
            e = core.guard_edges(f, [Guard(call=callee, cmp=True)])
            okk = False
            for ed in e:
                r = core.reach(f, cut_edges={ed})
                if not any(core.point_reached(f, r, o.bb, o.idx) for o in oks):
                    okk = True
            ctx.check(okk, 'guard|%s|%s' % (f.path, callee), 'Ok is control-dependent on the comparison of %s' % callee, f, f.line)
    f = ctx.fn('InternalTableDefinition::check_match_untyped')
    if f is not None:
        oks = []
        for i, b_ in enumerate(f.blocks):
            for j, s2 in enumerate(b_['s']):
                if s2[0] == 'a' and s2[1][0] == 0 and not s2[1][1] and s2[2]['k'] == 'agg' and s2[2]['v'] == 'Ok':
                    oks.append(Point(f, i, j, 'return Ok', s2[3]))
        e = core.guard_edges(f, [Guard(call='InternalTableDefinition::get_type', cmp=True), Guard(call='PartialEq::ne', vals={'false'}), Guard(call='PartialEq::eq', vals={'true'})])
        okk = False
        for ed in e:
            r = core.reach(f, cut_edges={ed})
            if oks and not any(core.point_reached(f, r, o.bb, o.idx) for o in oks):
                okk = True
        ctx.check(okk, 'guard|%s|kind' % f.path, 'Ok is control-dependent on the table kind comparison', f, f.line)
    ctx.callers_eq('ReadOnlyTable::new', {'ReadTransaction::open_table', 'Database::check_repaired_allocated_pages_table', 'Database::visit_freed_tree'}, allow_missing={'Database::check_repaired_allocated_pages_table'})
    ctx.callers_eq('ReadOnlyMultimapTable::new', {'ReadTransaction::open_multimap_table'})
    ctx.callers_eq('Table::new', {'TableNamespace::open_table'})
    ctx.callers_eq('MultimapTable::new', {'TableNamespace::open_multimap_table'})
    ctx.set_rule('C17.R2', 'kind dispatch: the other kind is unreachable only because get_table was given the matching TableType')
    for nm, want in (('open_table', 'Normal'), ('open_untyped_table', 'Normal'), ('open_multimap_table', 'Multimap'), ('open_untyped_multimap_table', 'Multimap')):
        f = ctx.fn('ReadTransaction::' + nm)
        if f is not None:
            g = ctx.sites(f, ['TableTree::get_table', 'TableTree::get_table_untyped'], exact=1)
            for p in g:
                term = core.sym(f).operand(p.call.t['a'][2])
                v = term[2] if term[0] == 'agg' else None
                ctx.check(v == want, 'const|%s|table-type' % f.path, '%s asks the catalog for TableType::%s (found %s)' % (nm, want, v), f, p.line)
    for nm, want in (('open_table', 'Normal'), ('open_multimap_table', 'Multimap')):
        f = ctx.fn('TableNamespace::' + nm)
        if f is not None:
            for p in ctx.sites(f, 'TableNamespace::inner_open', exact=1):
                term = core.sym(f).operand(p.call.t['a'][2])
                v = term[2] if term[0] == 'agg' else None
                ctx.check(v == want, 'const|%s|table-type' % f.path, '%s opens with TableType::%s (found %s)' % (nm, want, v), f, p.line)
    ctx.set_rule('C17.R3', 'a table is open at most once per transaction')
    for nm, inner in (('inner_open', 'TableTreeMut::get_or_create_table'), ('inner_rename', 'TableTreeMut::rename_table'), ('inner_delete', 'TableTreeMut::delete_table')):
        f = ctx.fn('TableNamespace::' + nm)
        if f is not None:
            t = ctx.sites(f, inner, exact=1)
            ctx.guarded(f, t, [Guard(call='BTreeMap::get', vals={'None'})], 'catalog touched only if the table is not open')
    f = ctx.fn('TableNamespace::inner_open')
    if f is not None:
        ins = ctx.sites(f, 'BTreeMap::insert', exact=1)
        ctx.guarded(f, ins, [ok('TableTreeMut::get_or_create_table')])
        cl = ctx.sites(f, 'TableTreeMut::clear_pending_table_update', exact=1)
        ctx.must_pass(f, cl, what='opening takes the staged update out')
        ctx.must_pass(f, ins, what='an opened table is recorded as open')
    ctx.set_rule('C17.R4', 'delete releases storage, in a safe order')
    f = ctx.fn('TableTreeMut::delete_table')
    if f is not None:
        vp = ctx.sites(f, 'InternalTableDefinition::visit_all_pages', exact=1)
        rm = ctx.sites(f, 'BtreeMut::remove', exact=1)
        unit, via = loop_unit(ctx, f, [PA + '::free_if_uncommitted', 'Vec::push'])
        fu = ctx.sites(unit, PA + '::free_if_uncommitted', exact=1)
        pu = ctx.sites(unit, 'Vec::push', exact=1)
        rel = [via] if via is not None else fu + pu
        ctx.order(f, vp, rm, 'pages collected before the catalog entry is removed')
        ctx.order(f, rm, rel, 'nothing is released before the catalog removal')
        ctx.guarded(f, rel, [ok('BtreeMut::remove')], 'release only after the catalog removal succeeded')
        ctx.guarded(unit, pu, [false_of(PA + '::free_if_uncommitted')])
        if via is not None:
            ctx.flows(f, via, 1, from_call='InternalTableDefinition::visit_all_pages', what='the pages released are the ones collected from the deleted table') if False else None
        pr = ctx.sites(f, 'BTreeMap::remove', exact=1)
        ctx.must_pass(f, pr, start=rm[0] if rm else None, what='the staged update of a deleted table is dropped')
    ctx.set_rule('C17.R5', 'rename moves the definition and re-keys the staged update last')
    f = ctx.fn('TableTreeMut::rename_table')
    if f is not None:
        rm = ctx.sites(f, 'BtreeMut::remove', exact=1)
        ins = ctx.sites(f, 'BtreeMut::insert', exact=1)
        rk = ctx.sites(f, 'BTreeMap::remove', exact=1)
        ctx.order(f, rm, ins)
        ctx.guarded(f, rk, [ok('BtreeMut::insert')], 'staged update re-keyed only after both catalog updates succeeded')
        ge = ctx.sites(f, 'TableTreeMut::get_table_untyped', exact=1)
        ctx.guarded(f, rm, [Guard(call='TableTreeMut::get_table_untyped', vals={'None'}), Guard(call='Option::is_some', vals={'false'})], 'no rename onto an existing table') if False else None
        ctx.order(f, ge, rm, 'target name checked before anything is moved')
    ctx.set_rule('C17.R6', 'staged roots: table handles re-stage on drop; a root swap clears staged updates')
    for nm in ('<Table as Drop>::drop', '<MultimapTable as Drop>::drop'):
        f = ctx.fn(nm)
        if f is not None:
            ctx.must_pass(f, ctx.sites(f, WT + '::close_table', exact=1), exits='any', what='dropping a table handle always closes it')
    f = ctx.fn('TableTreeMut::set_root')
    if f is not None:
        ctx.must_pass(f, ctx.sites(f, 'BTreeMap::clear', exact=1), exits='any')
    f = ctx.fn('TableNamespace::set_root')
    if f is not None:
        sr = ctx.sites(f, 'TableTreeMut::set_root', exact=1)
        ctx.guarded(f, sr, [true_of('BTreeMap::is_empty')], 'root swapped only with no table open')


# ------------------------------------------------------------------------------------ C06.R1 / R7
def c06_r1_freed_merged(ctx):
    ctx.set_rule('C06.R1', 'freed pages are never dropped on the floor: merged on every exit')
    n = 0
    for nm in ('insert', 'remove', 'pop_first', 'pop_last', 'insert_reserve', 'retain_in_bounds'):
        f = ctx.fn('BtreeMut::' + nm)
        if f is None:
            continue
        m = ctx.sites(f, 'btree::merge_freed_pages', exact=1)
        # every path from the mutation to any exit passes the merge
        muts = f.calls_to(['MutateHelper::insert', 'MutateHelper::delete', 'CursorMut::seek_to', 'CursorMut::remove_next', 'CursorMut::remove_prev', 'BtreeMut::retain_in_helper', 'Result::and_then'])
        ctx.check(len(muts) >= 1, 'floor|%s|mutation' % f.path, 'the mutation call exists', f, f.line)
        for c in muts:
            ctx.must_pass(f, m, start=cpoint(c), exits='any', what='%s: every exit after the mutation merges the freed pages' % nm)
        n += 1
    ctx.check(n >= 6, 'floor|merge-sites', 'the 6 BtreeMut mutation entry points were analysed (found %d)' % n)
    ctx.callers_eq('btree::merge_freed_pages', {'BtreeMut::insert', 'BtreeMut::remove', 'BtreeMut::pop_first', 'BtreeMut::pop_last', 'BtreeMut::insert_reserve', 'BtreeMut::retain_in_bounds'})
    f = ctx.fn('btree::merge_freed_pages')
    if f is not None:
        ap = ctx.sites(f, 'Vec::append', exact=1)
        ctx.guarded(f, ap, [false_of('Vec::is_empty')])
        e_empty = core.guard_edges(f, [true_of('Vec::is_empty')])
        ctx.must_pass(f, ap, exits='any', extra_cut_edges=e_empty, what='a non-empty private list is always appended')
    # the fake freed list of insert_inplace must stay empty
    f = ctx.fn('BtreeMut::insert_inplace')
    if f is not None:
        ie = [c for c in f.calls if c.matches('Vec::is_empty')]
        ctx.check(len(ie) == 1 and any('m:assert' in x for x in (ie[0].t.get('x') or [])) or len(ie) == 1, 'floor|%s|assert-empty' % f.path, 'insert_inplace asserts that nothing was freed', f, f.line)
    # cursor family
    cur_fns = ['RangeMut::with_live_cursor'] + (['BtreeCursorMut::with_cursor'] if ctx.has_fn('BtreeCursorMut::with_cursor') else [])
    for nm in cur_fns:
        f = ctx.fn(nm)
        if f is not None:
            c = ctx.sites(f, 'CursorTree::cursor', exact=1)
            d = ctx.sites(f, 'CursorTree::drain_freed', exact=1)
            ctx.must_pass(f, d, start=c[0] if c else None, exits='any', what='every exit after obtaining a live cursor drains the freed pages')
    f = ctx.fn('CursorTree::drain_freed')
    if f is not None:
        fu = ctx.sites(f, PA + '::free_if_uncommitted', floor=0)
    ctx.callers_eq('CursorTree::cursor', {'RangeMut::seek_end', 'RangeMut::with_live_cursor', 'BtreeCursorMut::with_cursor'}, allow_missing={'BtreeCursorMut::with_cursor'})


def c06_r7_multimap(ctx):
    ctx.set_rule('C06.R7', 'multimap subtree pages are released with the key')
    f = ctx.fn('MultimapTable::remove_all')
    if f is not None:
        fc = ctx.sites(f, 'MultimapValue::from_collection_free_on_drop', exact=1)
        it = ctx.sites(f, 'AllPageNumbersBtreeIter::new', exact=1)
        for p in fc:
            ctx.flows(f, p, 1, from_call='AllPageNumbersBtreeIter::new', what='the free-on-drop list is the subtree page walk')
        for p in it:
            ctx.flows(f, p, 0, from_call='DynamicCollection::as_subtree')
        ctx.guarded(f, it, [Guard(call='DynamicCollection::collection_type', vals={'SubtreeV2'})])
        rm = ctx.sites(f, 'BtreeMut::remove', exact=1)
        ctx.guarded(f, fc, [Guard(call='BtreeMut::remove', vals={'Some'})])
        # on the SubtreeV2 edge the walk is not skippable
        vs = None
        for a in ctx.facts.adts.values():
            if a['p'].endswith('multimap_btree::DynamicCollectionType'):
                vs = {v['n'] for v in a['variants']}
        if vs:
            e_other = core.guard_edges(f, [Guard(call='DynamicCollection::collection_type', vals=vs - {'SubtreeV2'})])
            ct = ctx.sites(f, 'DynamicCollection::collection_type', exact=1)
            ctx.must_pass(f, it, start=ct[0] if ct else None, extra_cut_edges=e_other, what='a removed subtree-backed key always has its pages walked')
    f = ctx.fn('<MultimapValue as Drop>::drop')
    if f is not None:
        fu = ctx.sites(f, PA + '::free_if_uncommitted', exact=1)
        pu = ctx.sites(f, 'Vec::push', exact=1)
        tk = ctx.sites(f, 'mem::take', exact=1)
        ctx.guarded(f, pu, [false_of(PA + '::free_if_uncommitted')])
        ctx.order(f, tk, fu, 'own page references dropped before the pages are freed')
        e_empty = core.guard_edges(f, [true_of('Vec::is_empty')])
        ctx.must_pass(f, ctx.sites(f, 'Mutex::lock', exact=1), exits='any', extra_cut_edges=e_empty, what='a non-empty free-on-drop list is always processed')
    f = ctx.fn('MultimapTable::remove')
    if f is not None:
        cf = ctx.sites(f, PA + '::conditional_free', exact=1)
        ctx.check(len(cf) == 1, 'floor|%s|conditional_free' % f.path, 'the subtree-to-inline arm releases the old subtree root', f, f.line)


# ------------------------------------------------------------------------------------ C16
def _sh(x):
    return x.replace('BuildHasherDefault<FastHasher64>', 'H')


NEST_TABLE = {
    # (held, acquired): reason.  Classes are the guarded types.
    ('InMemoryState', 'LRUCache<Arc<[u8]>>'): 'TM.state -> read cache stripe: header write / free under the state lock',
    ('InMemoryState', 'LRUWriteCache'): 'TM.state -> write buffer stripe: header write / allocation under the state lock',
    ('LRUWriteCache', 'LRUCache<Arc<[u8]>>'): 'write buffer stripe before read cache stripe (documented order in cached_file.rs)',
    ('LRUWriteCache', 'LRUWriteCache'): 'a second stripe only with try_lock',
    ('SavepointTransactionState', 'State'): 'savepoint_state -> tracker.state (apply_on_commit / apply_on_abort)',
    ('State', 'InMemoryState'): 'tracker.state -> TM.state: the documented order (register_read_transaction)',
    ('SystemNamespace', 'InMemoryState'): 'system_tables -> TM.state',
    ('SystemNamespace', 'SavepointTransactionState'): 'system_tables -> savepoint_state',
    ('SystemNamespace', 'State'): 'system_tables -> tracker.state',
    ('SystemNamespace', 'TableNamespace'): 'only on the exclusive commit path (page_allocator() under system_tables)',
    ('SystemNamespace', 'UnpersistedState'): 'system_tables -> TM.unpersisted',
    ('SystemNamespace', 'Vec<PageNumber>'): 'system_tables -> freed pages list',
    ('TableNamespace', 'InMemoryState'): 'tables -> TM.state',
    ('TableNamespace', 'PageTrackerPolicy'): 'tables -> allocation tracker',
    ('TableNamespace', 'State'): 'tables -> tracker.state (savepoint registration under the tables lock)',
    ('TableNamespace', 'SystemNamespace'): 'tables -> system_tables: the shared-access order',
    ('TableNamespace', 'UnpersistedState'): 'tables -> TM.unpersisted',
    ('TableNamespace', 'Vec<PageNumber>'): 'tables -> freed pages list',
    ('Vec<PageNumber>', 'SystemNamespace'): 'only in restore_savepoint_inner (&mut self, exclusive)',
    ('Vec<PageNumber>', 'UnpersistedState'): 'freed pages list -> TM.unpersisted',
}
DEBUG_CLASSES = ('HashSet<PageNumber', 'HashMap<PageNumber', 'BTreeSet<PageNumber', 'BTreeMap<PageNumber')  # debug-assertion bookkeeping sets (hash based with std, BTree based without)
EXCLUSIVE_ONLY = {
    ('SystemNamespace', 'TableNamespace'): {'WriteTransaction::durable_commit', 'WriteTransaction::store_data_freed_pages_for'},
    ('Vec<PageNumber>', 'SystemNamespace'): {'WriteTransaction::restore_savepoint_inner'},
}
FORBIDDEN = [
    ('InMemoryState', 'State', 'TM.state -> tracker.state would invert the documented order'),
    ('UnpersistedState', 'State', 'TM.unpersisted -> tracker.state'),
    ('InMemoryState', 'TableNamespace', 'TM.state -> tables'),
    ('InMemoryState', 'SystemNamespace', 'TM.state -> system_tables'),
    ('InMemoryState', 'Vec<PageNumber>', 'TM.state -> freed pages'),
    ('PageTrackerPolicy', 'Vec<PageNumber>', 'allocation tracker -> freed pages (freed pages must be taken first)'),
    ('LRUCache<Arc<[u8]>>', 'LRUWriteCache', 'read cache stripe -> write buffer stripe'),
    ('State', 'TableNamespace', 'tracker.state -> tables'),
    ('State', 'SystemNamespace', 'tracker.state -> system_tables'),
]


def c16_rules(ctx):
    ctx.set_rule('C16.R1a', 'the shared freed-pages lock is held only for the merge, never across a tree descent')
    n = 0
    bad = []
    for f in ctx.facts.fn_list:
        for c in f.calls:
            cal = c.callee or ''
            if 'btree_mutator::MutateHelper' in cal or 'btree_cursor::CursorMut' in cal or 'btree_cursor::CursorTree' in cal and 'drain_freed' not in cal:
                n += 1
                h = core.held_types_at(f, c.bb)
                if 'Vec<PageNumber>' in h:
                    bad.append((f, c))
    ctx.per_rule[ctx.rule]['sites'] += n
    ctx.check(n >= 40, 'floor|tree-mutation-calls', 'tree mutation call sites examined: %d' % n)
    ctx.check(not bad, 'held|freed_pages-across-descent|%s' % (bad[0][0].path if bad else ''), 'no freed-pages guard is live at any MutateHelper/CursorMut call (%d sites)' % n, bad[0][0] if bad else None, bad[0][1].line if bad else None)
    f = ctx.fn('btree::merge_freed_pages')
    if f is not None:
        lk = ctx.sites(f, 'Mutex::lock', exact=1)
        ctx.no_direct(f, ['MutateHelper::insert', 'MutateHelper::delete'], 'merge touches no tree')

    ctx.set_rule('C16.R1b', 'lock nesting table: every direct (depth<=2, statically resolved) nesting of two locks is a confirmed pair')
    pairs = core.direct_lock_nestings(ctx.facts, 2)
    seen = set()
    for (h, a, kind), sites in sorted(pairs.items()):
        if any(h.startswith(d) or a.startswith(d) for d in DEBUG_CLASSES):
            ctx._ob(True)
            continue
        key = (h, a)
        seen.add(key)
        okk = key in NEST_TABLE
        if key == ('LRUWriteCache', 'LRUWriteCache'):
            okk = kind == 'try'
        if key == ('InMemoryState', 'LRUWriteCache') and kind == 'try':
            okk = True
        ctx._ob(okk, ctx.sample('nesting', None, None, '%s -> %s (%s) in %s' % (h, a, kind, sorted({s[0].split('::')[-1] for s in sites})[:6])) if False else {'rule': ctx.rule, 'cfg': ctx.cfg, 'kind': 'nesting', 'what': '%s -> %s (%s) in %s: %s' % (h, a, kind, sorted({s[0].split("::")[-1] for s in sites})[:6], NEST_TABLE.get(key, 'NOT CONFIRMED'))})
        if not okk:
            fobj = ctx.facts.fns.get(sites[0][0])
            ctx.violate('new-nesting|%s|%s|%s' % (h, a, kind), 'new lock nesting: `%s` is acquired (%s) while `%s` is held, in %s (via %s) -- confirm the order against the table and add it' % (a, kind, h, sorted({s[0] for s in sites})[:3], sites[0][2]), fobj, sites[0][1])
        if key in EXCLUSIVE_ONLY:
            fnset = {s[0] for s in sites}
            extra = [x for x in fnset if not any(core.name_matches(e, core.alt_names(x)) for e in EXCLUSIVE_ONLY[key])]
            ctx.check(not extra, 'exclusive|%s|%s|%s' % (h, a, extra[0] if extra else ''), 'the reversed nesting %s -> %s occurs only on exclusive (&mut self / by-value) paths %s (found also in %s)' % (h, a, sorted(EXCLUSIVE_ONLY[key]), extra))
            for x in fnset:
                fx = ctx.facts.fns.get(x)
                if fx is not None and core.name_matches('WriteTransaction::store_data_freed_pages_for', fx.names):
                    # &self helper: its callers must be exclusive
                    cs = ctx.facts.callers_of('WriteTransaction::store_data_freed_pages_for')
                    okc = all(any(core.name_matches(e, core.alt_names(p)) for e in ('WriteTransaction::durable_commit', 'WriteTransaction::store_data_freed_pages', 'WriteTransaction::commit_inner_helper')) for p in cs)
                    ctx.check(okc, 'exclusive-callers|store_data_freed_pages_for', 'store_data_freed_pages_for is only reached from the commit path (callers: %s)' % sorted(cs))
    for (h, a, why) in FORBIDDEN:
        ctx.check((h, a) not in seen, 'forbidden-nesting|%s|%s' % (h, a), 'forbidden lock order absent: %s' % why)
    core_pairs = [('State', 'InMemoryState'), ('TableNamespace', 'SystemNamespace'), ('LRUWriteCache', 'LRUCache<Arc<[u8]>>'), ('TableNamespace', 'State')]
    for p in core_pairs:
        ctx.check(p in seen, 'floor|nesting|%s|%s' % p, 'the lock-nesting extractor still sees the documented nesting %s -> %s (otherwise it is blind)' % p)
    # State -> InMemoryState exactly in register_read_transaction
    st = {s[0] for (h, a, k), v in pairs.items() if (h, a) == ('State', 'InMemoryState') for s in v}
    ctx.check(st == {'transaction_tracker::TransactionTracker::register_read_transaction'}, 'only|State->InMemoryState', 'tracker.state -> TM.state nests only in register_read_transaction (found %s)' % sorted(st))

    ctx.set_rule('C16.R1e', 'a second write-buffer stripe is only ever taken with try_lock')
    ctx.callers_eq('Mutex::try_lock', {PCF + '::write', PCF + '::flush_buffered_pages', '<sync::spin::Mutex as Debug>::fmt'}, allow_missing={'<sync::spin::Mutex as Debug>::fmt'})

    ctx.set_rule('C16.R3', 'no transaction-level lock is held across user code')
    n = 0
    for f in ctx.facts.fn_list:
        for c in f.calls:
            if c.declared and c.declared.split('::')[-1] in ('call_mut', 'call_once', 'call') and c.resolved is None:
                n += 1
                h = core.held_types_at(f, c.bb) & {'State', 'InMemoryState', 'TableNamespace', 'SystemNamespace', 'Vec<PageNumber>', 'UnpersistedState'}
                root = ctx.facts.root_of(f)
                allowed = core.name_matches('WriteTransaction::read_existing_system_table', root.names) and h == {'SystemNamespace'}
                ctx._ob(not h or allowed)
                if h and not allowed:
                    ctx.violate('lock-across-callback|%s|%s' % (root.path, '+'.join(sorted(h))), 'lock(s) %s held while calling a caller-supplied closure' % sorted(h), f, c.line)
    ctx.check(n >= 20, 'floor|callback-sites', 'caller-supplied closure call sites examined: %d' % n)
    # read_existing_system_table's closure parameter is internal: all callers pass local closures
    cs = ctx.facts.callers_of('WriteTransaction::read_existing_system_table')
    ctx.check(all(p.startswith('transactions::WriteTransaction::') for p in cs), 'internal-callback|read_existing_system_table', 'read_existing_system_table is only called from WriteTransaction methods (its closure is internal code)')


# ------------------------------------------------------------------------------------ page walkers (C06/C11/C12/C17)
def walker_rules(ctx):
    ctx.set_rule('C06.R4b', 'the page walk used by rebuild / delete / compaction covers the catalog, every table of both kinds, every child and every multimap subtree')
    f = ctx.fn('TableTree::visit_all_pages')
    if f is not None:
        m = ctx.sites(f, 'Btree::visit_all_pages', exact=1)
        lt = ctx.sites(f, 'TableTree::list_tables', exact=2)
        dv = ctx.sites(f, 'InternalTableDefinition::visit_all_pages', exact=2)
        kinds = set()
        for p_ in lt:
            term = core.sym(f).operand(p_.call.t['a'][1])
            kinds.add(term[2] if term[0] == 'agg' else None)
        ctx.check(kinds == {'Normal', 'Multimap'}, 'const|%s|kinds' % f.path, 'both table kinds are listed and walked (found %s)' % sorted(map(str, kinds)), f, f.line)
        ctx.must_pass(f, m, what='the catalog tree itself is walked')
        for p_ in lt:
            ctx.must_pass(f, [p_], what='tables of each kind are listed on every success path')
        # inside each loop the definition walk is not skippable: from get_table_untyped to the next iteration
        gu = ctx.sites(f, 'TableTree::get_table_untyped', exact=2)
        nxt = [c for c in f.calls if c.matches('Iterator::next')]
        for g_ in gu:
            r = core.reach(f, start=(g_.bb, g_.idx), cut_blocks={d.bb for d in dv} | core.error_blocks(f))
            skipped = [n for n in nxt if n.bb in r['term']] or [rb for rb in f.ret_blocks() if rb in r['term']]
            ctx._ob(not skipped, ctx.sample('must-pass', f, g_.line, 'every listed table is walked before the loop advances'))
            if skipped:
                ctx.violate('must-pass|%s|table-walk-skipped' % f.path, 'a listed table can be skipped by the page walk', f, g_.line)
    f = ctx.fn('InternalTableDefinition::visit_all_pages')
    if f is not None:
        a = ctx.sites(f, 'UntypedBtree::visit_all_pages', exact=1)
        b = ctx.sites(f, 'UntypedMultiBtree::visit_all_pages', exact=1)
        ctx.guarded(f, a, [Guard(place='self', vals={'Normal'})])
        ctx.guarded(f, b, [Guard(place='self', vals={'Multimap'})])
        ctx.must_pass(f, a + b, what='every definition kind is walked')
    f = ctx.fn('UntypedBtree::visit_pages_helper')
    if f is not None:
        rec = ctx.sites(f, 'UntypedBtree::visit_pages_helper', exact=1)
        vc = [c for c in f.calls if c.declared and c.declared.split('::')[-1] in ('call_mut', 'call_once', 'call')]
        ctx.check(len(vc) == 1, 'floor|%s|visitor' % f.path, 'the visitor is applied to the page', f, f.line)
        if vc:
            ctx.must_pass(f, [cpoint(vc[0], 'visitor call')], what='every visited page reaches the visitor')
        for p_ in rec:
            ctx.flows(f, p_, 1, from_call='BranchAccessor::child_page', what='recursion over the children of the branch')
        # every child: from child_page call to next loop iteration the recursion is not skippable (except the error returns)
        cp = ctx.sites(f, 'BranchAccessor::child_page', exact=1)
        nxt = [c for c in f.calls if c.matches('Iterator::next')]
        if cp and rec:
            r = core.reach(f, start=(cp[0].bb, cp[0].idx), cut_blocks={rec[0].bb} | core.error_blocks(f))
            skipped = [n for n in nxt if n.bb in r['term']] or [rb for rb in f.ret_blocks() if rb in r['term']]
            ctx._ob(not skipped, ctx.sample('must-pass', f, cp[0].line, 'every child is descended into'))
            if skipped:
                ctx.violate('must-pass|%s|child-skipped' % f.path, 'a child page can be skipped by the page walk', f, cp[0].line)
        # the loop covers count_children
        cc = ctx.sites(f, 'BranchAccessor::count_children', exact=1)
    f = ctx.fn('UntypedMultiBtree::visit_all_pages')
    if f is not None:
        ctx.sites(f, 'UntypedBtree::visit_all_pages', exact=1)
        clo = [c for c in f.closures if c.calls_to('multimap_btree::parse_subtree_roots')]
        ctx.check(len(clo) == 1, 'floor|%s|subtree-closure' % f.path, 'the per-page closure parses subtree roots', f, f.line)
        for cl in clo:
            sv = ctx.sites(cl, 'UntypedBtree::visit_all_pages', exact=1)
            ps = ctx.sites(cl, 'multimap_btree::parse_subtree_roots', exact=1)
            gp = ctx.sites(cl, 'PageResolver::get_page', exact=1)
            for p_ in ps:
                ctx.flows(cl, p_, 0, from_call='PageResolver::get_page')
            for p_ in gp:
                ctx.flows(cl, p_, 1, from_call='PagePath::page_number', what='subtree roots are parsed from the page being visited')
    f = ctx.fn('multimap_btree::parse_subtree_roots')
    if f is not None and not f.calls_to('Vec::push') and any(c.matches('Iterator::collect') for c in f.calls):
        # the loop written as (0..n).map(entry).map(from_bytes).filter(is SubtreeV2).map(as_subtree).collect()
        co = [cpoint(c) for c in f.calls if c.matches('Iterator::collect') and not f.blocks[c.bb]['c']]
        flt = [cl for cl in f.closures if cl.calls_to('DynamicCollection::collection_type') and cl.local_ty(0) == 'bool']
        mp = [cl for cl in f.closures if cl.calls_to('DynamicCollection::as_subtree')]
        ok_ = len(co) == 1 and len(flt) == 1 and len(mp) == 1
        ctx._ob(ok_, ctx.sample('sites', f, f.line, 'subtree roots are collected through a SubtreeV2 filter'))
        if not ok_:
            ctx.violate('floor|%s|subtree-filter' % f.path, 'expected one collect() fed by one filter on collection_type() and one as_subtree() mapping (found %d/%d/%d)' % (len(co), len(flt), len(mp)), f, f.line)
        for cl in flt:
            def consts(cut):
                r_ = core.reach(cl, cut_edges=cut)
                out = set()
                for bi, b in enumerate(cl.blocks):
                    for si, st in enumerate(b['s']):
                        if st[0] == 'a' and st[1] == [0, []] and core.point_reached(cl, r_, bi, si):
                            out.add(st[2]['o'][2] if st[2]['k'] == 'use' and st[2]['o'][0] == 'k' else 'other')
                return out
            e_sub = core.guard_edges(cl, [Guard(call='DynamicCollection::collection_type', vals={'SubtreeV2'})])
            keep_only_sub = bool(e_sub) and consts(e_sub) <= {False}
            ns_ = None
            for a_ in ctx.facts.adts.values():
                if a_['p'].endswith('multimap_btree::DynamicCollectionType'):
                    ns_ = {v['n'] for v in a_['variants']}
            e_oth = core.guard_edges(cl, [Guard(call='DynamicCollection::collection_type', vals=(ns_ or set()) - {'SubtreeV2'})]) if ns_ else set()
            keep_every_sub = bool(e_oth) and consts(e_oth) <= {True}
            ctx._ob(keep_only_sub and keep_every_sub, ctx.sample('guard', cl, cl.line, 'the filter keeps exactly the SubtreeV2 entries'))
            if not (keep_only_sub and keep_every_sub):
                ctx.violate('guard|%s|subtree-filter' % f.path, 'the filter in front of collect() does not keep exactly the SubtreeV2 entries of the leaf', cl, cl.line)
        f = None
    if f is not None:
        pu = ctx.sites(f, 'Vec::push', exact=1)
        ctx.guarded(f, pu, [Guard(call='DynamicCollection::collection_type', vals={'SubtreeV2'})])
        ns = None
        for a_ in ctx.facts.adts.values():
            if a_['p'].endswith('multimap_btree::DynamicCollectionType'):
                ns = {v['n'] for v in a_['variants']}
        if ns:
            e_other = core.guard_edges(f, [Guard(call='DynamicCollection::collection_type', vals=ns - {'SubtreeV2'})])
            ct = ctx.sites(f, 'DynamicCollection::collection_type', exact=1)
            if ct and pu:
                r = core.reach(f, start=(ct[0].bb, ct[0].idx), cut_edges=e_other, cut_blocks={pu[0].bb})
                nxt = [c for c in f.calls if c.matches('Iterator::next')]
                skipped = [n for n in nxt if n.bb in r['term']]
                ctx.check(not skipped, 'must-pass|%s|subtree-skipped' % f.path, 'every SubtreeV2 entry of a leaf yields its subtree root', f, ct[0].line)
    ctx.set_rule('C10.R3b', 'a staged table root is marked dirty iff its root page is uncommitted; only clean, unchanged roots are skipped by the flush')
    f = ctx.fn('TableTreeMut::stage_update_table_root')
    if f is not None:
        ins = ctx.sites(f, 'BTreeMap::insert', exact=1)
        for p_ in ins:
            ok_flow = core.flows_from_call(f, p_.call.t['a'][2], 'Option::is_some_and')
            ctx.check(ok_flow, 'flow|%s|dirty' % f.path, 'the staged dirty flag derives from the uncommitted() test of the root page', f, p_.line)
        clo = [c for c in f.closures if c.calls_to(PA + '::uncommitted')]
        ctx.check(len(clo) == 1, 'floor|%s|uncommitted-closure' % f.path, 'the dirty test asks PageAllocator::uncommitted', f, f.line)
    f = ctx.fn('TableTreeMut::flush_table_root_updates')
    if f is not None:
        ins = ctx.sites(f, 'BtreeMut::insert', exact=1)
        nxt = ctx.sites(f, 'Iterator::next', exact=1)
        # the skip (loop advances without insert) needs `dirty == false`
        e_clean = core.guard_edges(f, [Guard(place='dirty', vals={'false'})])
        ctx.check(bool(e_clean), 'guard-missing|%s|dirty' % f.path, 'flush_table_root_updates tests the dirty flag', f, f.line)
        g_ = ctx.sites(f, 'BtreeMut::get', exact=1)
        if g_ and ins and nxt:
            r = core.reach(f, start=(g_[0].bb, g_[0].idx), cut_edges=e_clean, cut_blocks={ins[0].bb} | core.error_blocks(f))
            skipped = nxt[0].bb in r['term'] or any(rb in r['term'] for rb in f.ret_blocks())
            ctx._ob(not skipped, ctx.sample('must-pass', f, g_[0].line, 'a dirty staged root is always written to the catalog'))
            if skipped:
                ctx.violate('must-pass|%s|dirty-root-skipped' % f.path, 'a staged table root with dirty (DEFERRED) checksums can be skipped by flush_table_root_updates', f, g_[0].line)
    ctx.set_rule('C06.R3b', 'both freed tables are processed by a durable commit')
    f = ctx.fn(WT + '::process_freed_pages')
    if f is not None:
        ex = ctx.sites(f, WT + '::extract_freed_pages', exact=2)
        names = set()
        for p_ in ex:
            a_ = p_.call.t['a'][1]
            names.add(a_[3] if a_[0] == 'k' and len(a_) > 3 else None)
        ctx.check(names == {'transactions::DATA_FREED_TABLE', 'transactions::SYSTEM_FREED_TABLE'}, 'const|%s|tables' % f.path, 'process_freed_pages drains DATA_FREED_TABLE and SYSTEM_FREED_TABLE (found %s)' % sorted(map(str, names)), f, f.line)
        for p_ in ex:
            ctx.must_pass(f, [p_], what='both freed tables are drained on every success path')


# ------------------------------------------------------------------------------------ reader reference counts (C02/C06/C07)
def refcount_rules(ctx):
    ctx.set_rule('C02.R9', 'live-reader reference counts: every registration increments, every release decrements and removes at zero')

    def has_bin(fn_, ops, const):
        for b in fn_.blocks:
            for st in b['s']:
                if st[0] == 'a' and st[2]['k'] == 'bin' and st[2]['op'] in ops:
                    if any(o[0] == 'k' and o[2] == const for o in st[2]['o']):
                        return True
        return False
    for nm in ('register_read_transaction', 'register_non_durable_commit', 'register_persistent_savepoint'):
        f = ctx.fn(TT + '::' + nm)
        if f is None:
            continue
        outer, via = f, None
        if not f.calls_to(['Entry::or_insert', 'Entry::or_default']):
            # the increment extracted into a private helper (`state.add_reference(id)`): analyse the
            # helper's body, and the lock at the helper's call site
            for c in f.calls:
                if f.blocks[c.bb]['c'] or not c.callee or not ctx.facts.has_fn(c.callee):
                    continue
                try:
                    g = ctx.facts.fn(c.callee)
                except core.AnchorError:
                    continue
                if g.calls_to(['Entry::or_insert', 'Entry::or_default']) and g.calls_to('BTreeMap::entry'):
                    f, via = g, cpoint(c)
                    break
        # two equivalent idioms: entry(id).and_modify(|x| *x += 1).or_insert(1)  |  *entry(id).or_insert(0) += 1
        am = [cpoint(c) for c in f.calls_to('Entry::and_modify')]
        oi = ctx.sites(f, ['Entry::or_insert', 'Entry::or_default'], exact=1)
        if am:
            ctx.check(len(am) == 1, 'refcount|%s|and_modify' % f.path, 'one and_modify', f, f.line)
            for p_ in oi:
                ctx.const_arg(f, p_, 1, 1, 'a first registration starts the count at 1')
            inc = [c for c in f.closures if has_bin(c, ('Add', 'AddWithOverflow'), 1)]
            ctx.check(len(inc) == 1, 'refcount|%s|increment' % f.path, '%s increments an existing count by one (and_modify closure)' % nm, f, f.line)
        else:
            for p_ in oi:
                if p_.call.matches('Entry::or_insert'):
                    ctx.const_arg(f, p_, 1, 0, 'a missing entry counts as 0 before the increment')
            ctx.check(has_bin(f, ('Add', 'AddWithOverflow'), 1), 'refcount|%s|increment' % f.path, '%s increments the (possibly fresh) count by one' % nm, f, f.line)
        if via is not None:
            ctx.held(outer, [via], TTSTATE)
            ctx.must_pass(f, oi, exits='any', what='the helper always performs the increment')
        else:
            ctx.held(f, am + oi, TTSTATE)
    for nm in ('deallocate_read_transaction', 'clear_pending_non_durable_commits'):
        f = ctx.fn(TT + '::' + nm)
        if f is None:
            continue
        ctx.check(has_bin(f, ('Sub', 'SubWithOverflow'), 1), 'refcount|%s|decrement' % f.path, '%s decrements the count by one' % nm, f, f.line)
        rm = ctx.sites(f, 'BTreeMap::remove', exact=1)
        ctx.guarded_cmp(f, rm, [Guard(call='BTreeMap::get_mut', cmp=True)], 'the entry is removed only behind a test of its count')
        ctx.held(f, rm, TTSTATE)
    # who touches the map
    own = set()
    for f_ in ctx.facts.fn_list:
        S_ = core.sym(f_)
        for c in f_.calls:
            if c.matches(('BTreeMap::entry', 'BTreeMap::insert', 'BTreeMap::remove', 'BTreeMap::get_mut', 'BTreeMap::clear')) and c.t['a']:
                d = S_.describe(S_.operand(c.t['a'][0]))
                if d.endswith('.live_read_transactions'):
                    own.add(ctx.facts.root_of(f_).path)
    exp = {TT + '::' + x for x in ('register_read_transaction', 'register_non_durable_commit', 'register_persistent_savepoint', 'deallocate_read_transaction', 'clear_pending_non_durable_commits')}
    def _confirmed(path, depth=2):
        if any(core.name_matches(e, core.alt_names(path)) for e in exp):
            return True
        if depth <= 0:
            return False
        # a private helper all of whose callers are confirmed writers is part of them
        try:
            g_ = ctx.facts.fn(path)
        except core.AnchorError:
            return False
        cs_ = ctx.facts.callers_of(path)
        return bool(cs_) and all(_confirmed(c_, depth - 1) for c_ in cs_)
    for p_ in sorted(own):
        ctx.check(_confirmed(p_), 'new-writer|live_read_transactions|%s' % p_, '`%s` mutates TransactionTracker.live_read_transactions (confirmed writers: the five registration/release functions)' % p_)
    covered = set()
    for p_ in own:
        if any(core.name_matches(e, core.alt_names(p_)) for e in exp):
            covered.add(p_)
        else:
            covered |= {c_ for c_ in ctx.facts.callers_of(p_) if any(core.name_matches(e, core.alt_names(c_)) for e in exp)}
    ctx.check(len(covered) >= 5, 'floor|live_read_transactions-writers', 'the five confirmed writers of live_read_transactions were found (%d)' % len(covered))


# ------------------------------------------------------------------------------------ retained checksums (C10)
def _places_read(f):
    for b in f.blocks:
        for st in b['s']:
            if st[0] == 'a':
                rv = st[2]
                ops = []
                if rv['k'] in ('use', 'cast', 'un', 'repeat'):
                    ops = [rv['o']]
                elif rv['k'] in ('bin', 'agg'):
                    ops = rv['o']
                elif rv['k'] in ('ref', 'rawptr', 'disc'):
                    ops = [['c', rv['p']]]
                for o in ops:
                    if o and o[0] in ('c', 'm'):
                        yield o[1], st
        t = b['t']
        if t['k'] == 'call':
            for a in t['a']:
                if a[0] in ('c', 'm'):
                    yield a[1], None


def retained_checksum_rules(ctx):
    ctx.set_rule('C10.R7', 'checksums retained for clean pages are propagated, never replaced by DEFERRED: whoever consumes the surviving child of a deleted branch also consumes its checksum')
    n = 0
    for f in ctx.facts.fn_list:
        if f.d.get('impl_trait', '').endswith('fmt::Debug'):
            continue
        r0 = r1 = 0
        for pl, _st in _places_read(f):
            pr = pl[1]
            if '@DeletedBranch' in pr:
                i = pr.index('@DeletedBranch')
                if len(pr) > i + 1 and pr[i + 1] == '.0':
                    r0 += 1
                if len(pr) > i + 1 and pr[i + 1] == '.1':
                    r1 += 1
        if r0 or r1:
            n += 1
            ctx.fns_touched.add(f.path)
            ctx._ob(r1 >= 1 and r0 >= 1, ctx.sample('payload', f, f.line, 'DeletedBranch payload: child read %d, checksum read %d' % (r0, r1)))
            if r0 and not r1:
                ctx.violate('retained-checksum-dropped|%s' % f.path, 'the surviving child of a DeletedBranch is used but its retained checksum is discarded: a clean (committed) page would be committed under a DEFERRED or stale checksum, which finalize_dirty_checksums never recomputes', f, f.line)
    ctx.check(n >= 2, 'floor|DeletedBranch-consumers', 'consumers of DeletionResult::DeletedBranch analysed: %d' % n)
    # and the checksum read flows into the header / child pointer that is built from the child
    f = ctx.fn('MutateHelper::finish_deletion')
    if f is not None:
        bh = ctx.sites(f, 'BtreeHeader::new', floor=3)
        okk = False
        for p_ in bh:
            a1 = p_.call.t['a'][1]
            if a1[0] in ('c', 'm'):
                ls, _c, _a, _k = core.flow_sources(f, a1)
                # derives from the matched payload (the deletion_result parameter)
                if any(f.local_name(l) == 'deletion_result' for l in ls) or any(f.local_name(l) == 'checksum' for l in ls):
                    okk = True
        ctx.check(okk, 'flow|%s|checksum' % f.path, 'one BtreeHeader::new in finish_deletion takes its checksum from the deletion result (the DeletedBranch arm)', f, f.line)


# ------------------------------------------------------------------------------------ allocation tracker states (C06/C07)
def tracker_state_rules(ctx):
    ctx.set_rule('C06.R5b', 'allocation tracking is switched off only by disable(): who constructs the Ignore / Closed / Track states of the page tracker')
    by_variant = {}
    for f in ctx.facts.fn_list:
        for i, b in enumerate(f.blocks):
            for j, st in enumerate(b['s']):
                if st[0] == 'a' and st[2]['k'] == 'agg' and st[2]['a'].endswith('base::PageTrackerPolicy'):
                    by_variant.setdefault(st[2]['v'], {}).setdefault(ctx.facts.root_of(f).path, []).append((f, st[3]))
    table = {
        'Ignore': {'PageTracker::ignore', 'PageTracker::disable'},
        'Closed': {'PageTracker::closed', 'PageTrackerPolicy::close'},
        'Track': {'PageTrackerPolicy::new_tracking', 'PageTrackerPolicy::reset'},
    }
    for variant, exp in table.items():
        got = by_variant.get(variant, {})
        matched = set()
        for path, sites in sorted(got.items()):
            hit = [e for e in exp if core.name_matches(e, core.alt_names(path))]
            ctx._ob(bool(hit), ctx.sample('constructor', sites[0][0], sites[0][1], '%s constructs PageTrackerPolicy::%s' % (path, variant)))
            matched.update(hit)
            if not hit:
                ctx.violate('new-constructor|PageTrackerPolicy::%s|%s' % (variant, path), '`%s` puts the page tracker into the `%s` state (confirmed: %s) -- %s' % (path, variant, sorted(exp), 'tracking would be silently off for the rest of the transaction' if variant == 'Ignore' else 'confirm'), sites[0][0], sites[0][1])
        for e in exp:
            ctx.check(e in matched, 'lost-constructor|PageTrackerPolicy::%s|%s' % (variant, e), 'confirmed constructor %s of PageTrackerPolicy::%s still exists' % (e, variant))
    # the relaxed `tracking` flag is cleared only by disable() / the ignore() constructor
    own = {}
    for f in ctx.facts.fn_list:
        S_ = core.sym(f)
        for c in f.calls_to('Atomic::store'):
            d = S_.describe(S_.operand(c.t['a'][0])) if c.t['a'] else ''
            if d.endswith('.tracking'):
                a = c.t['a'][1]
                own.setdefault((ctx.facts.root_of(f).path, a[2] if a[0] == 'k' else None), c)
    for (path, val), c in sorted(own.items(), key=lambda x: str(x[0])):
        if val is False:
            ctx.check(core.name_matches('PageTracker::disable', core.alt_names(path)), 'tracking-cleared|%s' % path, 'PageTracker.tracking is cleared only in disable() (found in %s)' % path, c.fn, c.line)
    f = ctx.fn('PageTracker::disable')
    if f is not None:
        ctx.atomic_sites(f, 'store', 'self.tracking', exact=1, value=False)
    f = ctx.fn('PageTracker::reset')
    if f is not None:
        ctx.must_pass(f, ctx.sites(f, 'PageTrackerPolicy::reset', exact=1), exits='any')


# ------------------------------------------------------------------------------------ per-element completeness of bookkeeping loops

def loop_unit(ctx, f, patterns):
    """(function holding the per-element calls, point of the call into it): `f` itself when it
    calls every pattern directly; otherwise a private helper that only `f` calls, that no rule
    names, and that holds them (the loop body or the whole loop was extracted)."""
    import rulekit as _rk
    pats = [patterns] if isinstance(patterns, str) else list(patterns)
    if all(f.calls_to(p_) for p_ in pats):
        return f, None
    for c in f.calls:
        if f.blocks[c.bb]['c'] or not c.callee or c.t.get('virt') or _rk._is_named_anchor(c.callee):
            continue
        g = ctx.facts.fns.get(c.callee)
        if g is None or g is f:
            continue
        if not all(g.calls_to(p_) for p_ in pats):
            continue
        callers = set(ctx.facts.callers_of(g.path))
        if callers <= {ctx.facts.root_of(f).path}:
            ctx.notes.append('%s: per-element calls of %s found in its private helper %s' % (ctx.rule, f.path, g.path))
            return g, cpoint(c)
    return f, None


def loop_completeness_rules(ctx):
    ctx.set_rule('C06.R8', 'bookkeeping loops treat every element: no page / record of a batch can be skipped')
    table = [
        (PA + '::rollback_all', TM + '::free', 'rollback frees every page allocated since the last commit'),
        (WT + '::extract_freed_pages', None, 'every page of every extracted freed-record is handed to the callback'),
        (PCF + '::flush_write_buffer', CB + '::write', 'every buffered page of a stripe is written'),
        ('TableTreeMut::delete_table', PA + '::free_if_uncommitted', 'every page of a deleted table is released or queued'),
        ('<MultimapValue as Drop>::drop', PA + '::free_if_uncommitted', 'every free-on-drop page is released or queued'),
        (WT + '::store_data_freed_pages_for', 'PageListMut::push_back', 'every freed page is written into a DATA_FREED_TABLE record'),
        (WT + '::write_allocated_pages_entry', 'PageListMut::push_back', 'every allocated page is written into a DATA_ALLOCATED_TABLE record'),
        ('SavepointTransactionState::apply_on_commit', TT + '::deallocate_savepoint', 'every savepoint deleted by the committed transaction is released'),
        (WT + '::durable_commit', PA + '::free', 'every freed system-tree page is released after the commit'),
        (WT + '::restore_savepoint_inner', PA + '::free', 'every page allocated by the restoring transaction so far is released'),
        (TT + '::mark_non_durable_freed_pages_processed', 'BTreeSet::remove', 'every processed id leaves the unprocessed set'),
        (TT + '::invalidate_savepoints', 'BTreeMap::remove', 'every invalidated savepoint leaves valid_savepoints'),
    ]
    n = 0
    for fn_pat, callee, what in table:
        f = ctx.fn(fn_pat)
        if f is None:
            continue
        if callee is None:
            tg = [cpoint(c, 'callback call') for c in f.calls if c.declared and c.declared.split('::')[-1] in ('call_mut', 'call_once', 'call') and c.resolved is None]
        else:
            f, _via = loop_unit(ctx, f, callee)
            tg = [cpoint(c) for c in f.calls_to(callee)]
        ctx.check(len(tg) >= 1, 'floor|%s|%s' % (f.path, callee or 'callback'), 'the per-element call exists in %s' % fn_pat, f, f.line)
        if tg:
            ctx.each_iteration_passes(f, tg, what, 'element-skipped|%s' % (callee or 'callback'))
            n += 1
    ctx.check(n >= 10, 'floor|bookkeeping-loops', 'bookkeeping loops analysed: %d' % n)
    # closures handed to the freed-table walkers free every page they are given
    for fn_pat in (WT + '::process_freed_pages', WT + '::process_data_freed_pages_after_commit'):
        f = ctx.fn(fn_pat)
        if f is None:
            continue
        cls = [c for c in f.closures if c.calls_to(PA + '::free')]
        ctx.check(len(cls) == 1, 'floor|%s|free-closure' % f.path, 'the page-freeing closure exists', f, f.line)
        for cl in cls:
            ctx.must_pass(cl, [cpoint(c) for c in cl.calls_to(PA + '::free')], exits='any', what='the closure frees every page it is given')
    f = ctx.fn(WT + '::process_freed_pages_nondurable')
    if f is not None:
        cls = [c for c in f.closures if c.calls_to(TM + '::free_if_unpersisted')]
        for cl in cls:
            ctx.must_pass(cl, [cpoint(c) for c in cl.calls_to(TM + '::free_if_unpersisted')], exits='any', what='every in-memory freed page is offered to free_if_unpersisted')
    f = ctx.fn(TM + '::process_unpersisted_data_freed')
    if f is not None:
        rp = [cpoint(c) for c in f.calls_to('UnpersistedState::replace_data_freed')]
        ctx.each_iteration_passes(f, rp, 'every considered record is replaced by its survivors', 'record-skipped')


def full_range_fn(ctx, f, what, count_pat, idx_pats):
    ADD = ('Add', 'AddWithOverflow', 'AddUnchecked')
    SUB = ('Sub', 'SubWithOverflow', 'SubUnchecked')
    s = core.sym(f)
    cc_bbs = {c.bb for c in f.calls if c.matches(count_pat)}
    nxt = [c for c in f.calls if c.declared and c.declared.split('::')[-1] in ('next', 'next_back') and 'Iterator' in c.declared]

    def chain_source(c):
        """follow the receiver of a `next` call back through into_iter / rev to the range it iterates"""
        t = s.operand(c.t['a'][0])
        for _ in range(8):
            if t[0] == 'place' and all(p == '*' for p in t[2]):
                t = t[1]
            if t[0] == 'agg':
                return t
            if t[0] != 'call':
                return None
            cs = core.CallSite(f, t[1], f.blocks[t[1]]['t'])
            nm = (cs.declared or cs.callee or '').split('::')[-1]
            if nm not in ('into_iter', 'rev') or not cs.t['a']:
                if nm == 'new' and 'RangeInclusive' in (cs.callee or ''):
                    return t
                return None
            t = s.operand(cs.t['a'][0])
        return None

    def lin0(t, loop_bb, depth=0):
        if t[0] == 'place' and t[2] and all(p == '*' for p in t[2]):
            t = t[1]
        return lin(t, loop_bb, depth)

    def lin(t, loop_bb, depth=0):
        if depth > 12:
            return None
        if t[0] == 'const':
            try:
                return (0, 0, int(t[2]))
            except (TypeError, ValueError):
                return None
        if t[0] == 'call' and t[1] in cc_bbs:
            return (1, 0, 0)
        if t[0] == 'place':
            if t[1][0] == 'call' and t[1][1] == loop_bb and not [p for p in t[2] if p.startswith('[')]:
                return (0, 1, 0)
            if t[1][0] == 'cmp' and tuple(t[2]) == ('.0',):
                return lin(t[1], loop_bb, depth + 1)
            return None
        if t[0] == 'cmp' and t[1] in ADD + SUB:
            a = lin(t[2], loop_bb, depth + 1)
            b = lin(t[3], loop_bb, depth + 1)
            if a is None or b is None:
                return None
            sg = 1 if t[1] in ADD else -1
            return (a[0] + sg * b[0], a[1] + sg * b[1], a[2] + sg * b[2])
        return None

    loops = []
    for c in nxt:
        src = chain_source(c)
        if src is None:
            continue
        if src[0] == 'agg' and str(src[1]).endswith('ops::Range') and len(src) >= 5:
            st = f.blocks[src[3]]['s'][src[4]]
            lo, hi = lin(s.operand(st[2]['o'][0]), None), lin(s.operand(st[2]['o'][1]), None)
        elif src[0] == 'call':
            cs = core.CallSite(f, src[1], f.blocks[src[1]]['t'])
            lo, hi = lin(s.operand(cs.t['a'][0]), None), lin(s.operand(cs.t['a'][1]), None)
            if hi is not None:
                hi = (hi[0], hi[1], hi[2] + 1)
        else:
            continue
        if hi is not None and hi[0] != 0:
            loops.append((c, lo, hi))
    ok = len(loops) == 1
    ctx._ob(ok, ctx.sample('full-range', f, f.line, '%s: one loop over a range bounded by count_children()' % what))
    if not ok:
        ctx.violate('full-range|%s|range-count' % f.path, 'expected exactly one loop over a range bounded by count_children() (reached only through into_iter / rev) in the %s, found %d' % (what, len(loops)), f, f.line)
    idx_calls = [c for c in f.calls if any(c.matches(ip) for ip in idx_pats)]
    ctx.check(len(idx_calls) >= 1, 'floor|%s|child_page' % f.path, 'the walker reads child pages', f, f.line)
    for (lc, lo, hi) in loops:
        for c in idx_calls:
            ix = lin(s.operand(c.t['a'][1]), lc.bb)
            ok = False
            why = 'the index is not a linear expression of count_children() and the loop variable'
            if ix is not None and lo is not None and lo[1] == 0 and hi[1] == 0 and ix[1] in (1, -1):
                if ix[1] == 1:
                    first = (ix[0] + lo[0], ix[2] + lo[2])          # index at i = lo
                    last = (ix[0] + hi[0], ix[2] + hi[2] - 1)       # index at i = hi - 1
                else:
                    last = (ix[0] - lo[0], ix[2] - lo[2])           # largest index, at i = lo
                    first = (ix[0] - hi[0], ix[2] - hi[2] + 1)      # smallest index, at i = hi - 1
                ok = first == (0, 0) and last == (1, -1)
                why = 'visited indices run from %s to %s, not from 0 to n-1' % (_lin_str(first), _lin_str(last))
            ctx._ob(ok, ctx.sample('full-range', f, c.line, 'indices visited by %s are exactly 0..count_children()' % c.callee.split('::')[-1]))
            if not ok:
                ctx.violate('full-range|%s|index|%s' % (f.path, c.callee.split('::')[-1]), 'the %s does not visit every child through %s: %s' % (what, c.callee.split('::')[-1], why), f, c.line)


def full_range_rules(ctx):
    """The tree walkers that must see every child of a branch page visit exactly the index set
    [0, count_children()): the loop range and the index expression are reduced to linear forms over
    n = count_children() and the loop variable i, the iterator chain between the range and the loop may
    only reverse it, and the visited set {index(i) : i in range} must equal [0, n).  `for i in
    (0..n).rev()`, `for i in 0..n { child(n - 1 - i) }` and `for i in 1..=n { child(n - i) }` all pass;
    `for i in 1..n { child(n - i) }` (child 0 never visited) does not."""
    ctx.set_rule('C06.R9', 'tree walkers cover every child: the visited index set equals [0, count_children())')
    walkers = [
        ('UntypedBtree::visit_pages_helper', 'page walk of rebuild / delete / stats'),
        ('UntypedBtreeMut::finalize_dirty_checksums_helper', 'checksum finalisation'),
        ('UntypedBtreeMut::dirty_leaf_visitor_helper', 'dirty leaf visitor'),
        ('UntypedBtreeMut::relocate_helper', 'compaction relocation'),
        ('RawBtree::verify_checksum_helper', 'checksum verification'),
        ('<AllPageNumbersBtreeIter as Iterator>::next', 'all-pages iterator (multimap subtrees)'),
        ('multimap_btree::relocate_subtrees', 'relocation of multimap subtrees'),
    ]
    n = 0
    for pat, what in walkers:
        f = ctx.fn(pat)
        if f is None:
            continue
        full_range_fn(ctx, f, what, 'BranchAccessor::count_children', ('BranchAccessor::child_page', 'BranchAccessor::child_checksum'))
        n += 1
    ctx.check(n >= 7, 'floor|walkers', 'tree walkers analysed: %d' % n)


def _lin_str(ab):
    a, c = ab
    if a == 0:
        return str(c)
    return ('n' if a == 1 else '%d*n' % a) + (('%+d' % c) if c else '')


def savepoint_counter_rules(ctx):
    """The persisted next-savepoint-id is written by callers that reach the system-tables lock in any order
    (ids are handed out under a different lock), so the stored value may only ratchet up: it is read,
    combined with the new id through `max`, and written back, all under one hold of the lock."""
    ctx.set_rule('C07.R9', 'the persisted next-savepoint id only ratchets up (read, combine, write under one lock)')
    f = ctx.fn(WT + '::persistent_savepoint')
    if f is None:
        return
    ins_all = ctx.sites(f, 'SystemTable::insert', exact=2)
    nxt = [p for p in ins_all if core.flows_from_call(f, p.call.t['a'][2], 'SavepointId::next')]
    ctx.check(len(nxt) == 1, 'floor|%s|counter-insert' % f.path, 'one insert persists the next savepoint id (found %d)' % len(nxt), f, f.line)
    gt = ctx.sites(f, 'SystemTable::get', exact=1)
    for p in nxt:
        ctx.flows(f, p, 2, from_call='SystemTable::get', what='the persisted counter depends on the stored one (it can only ratchet up)')
    ctx.order(f, gt, nxt)
    ctx.held(f, gt + nxt, 'self.system_tables')
    # one hold: between the read and the write the lock is not re-taken
    lk = [c for c in f.calls if c.matches('Mutex::lock') and 'system_tables' in core.sym(f).describe(core.sym(f).operand(c.t['a'][0]))]
    if gt and nxt:
        r = core.reach(f, start=(gt[0].bb, gt[0].idx), cut_blocks={nxt[0].bb})
        again = [c for c in lk if c.bb in r['term']]
        ctx.check(not again, 'held|%s|one-hold' % f.path, 'the system-tables lock is not re-taken between reading and writing the counter', f, gt[0].line)


def compaction_target_rules(ctx):
    """Relocation targets are pages taken from the allocator outside every tree: each must be obtained only
    for a page that has no target yet, and must end up either in the relocation map or back in the
    allocator -- otherwise it is allocated, owned by nothing and committed that way."""
    ctx.set_rule('C13.R4', 'a relocation target is allocated only for a page without one, and is recorded in the relocation map or released')
    f = ctx.fn(WT + '::compact_pages')
    if f is None:
        return
    al = ctx.sites(f, PA + '::allocate_lowest', exact=2)
    ck = ctx.sites(f, ['HashMap::contains_key', 'BTreeMap::contains_key'], exact=2)
    ins = ctx.sites(f, ['HashMap::insert', 'BTreeMap::insert'], exact=2)
    fr = ctx.sites(f, PA + '::free', exact=1)
    ctx.guarded(f, al, [Guard(call='HashMap::contains_key', vals={'false'}), Guard(call='BTreeMap::contains_key', vals={'false'})], 'no second target for a page that already has one')
    s_ = core.sym(f)
    subj = {repr(s_.operand(p.call.t['a'][0])) for p in ck + ins}
    ctx.check(len(subj) == 1, 'subject|%s|relocation-map' % f.path, 'the map consulted and the map filled are the same map', f, f.line)
    # from each allocation, the next iteration / the return is reached only through insert or free (error exits abort the transaction)
    nxt = [c for c in f.calls if c.declared and c.declared.split('::')[-1] == 'next' and 'Iterator' in c.declared]
    for a_ in al:
        r = core.reach(f, start=(a_.bb, a_.idx), cut_blocks={p.bb for p in ins + fr} | core.error_blocks(f))
        skipped = [n_ for n_ in nxt if n_.bb in r['term']] or [rb for rb in f.ret_blocks() if rb in r['term']]
        ctx._ob(not skipped, ctx.sample('must-pass', f, a_.line, 'the allocated target is recorded or released before the loop advances'))
        if skipped:
            ctx.violate('must-pass|%s|target-dropped|%d' % (f.path, al.index(a_)), 'a relocation target obtained from allocate_lowest can reach the next iteration / the return without being recorded in the relocation map or released', f, a_.line)
    # the released one is the page just obtained; the recorded value likewise
    for p in fr:
        ctx.flows(f, p, 1, from_call=PA + '::allocate_lowest', what='the page released is the unused target')
    for p in ins:
        ctx.flows(f, p, 2, from_call=PA + '::allocate_lowest', what='the recorded target is the page just allocated')


def staged_root_rules(ctx):
    """What is staged for a table in `pending_table_updates` is (root, length, dirty): the length of a
    table is not the length of its tree for multimap tables (pairs vs. keys), so every producer of the
    tuple must take it from where the contents' own count lives."""
    ctx.set_rule('C13.R3', 'staged table roots carry the table length unchanged: the caller\'s length at close, the definition\'s own length at relocation')

    def staged_tuple(f):
        s = core.sym(f)
        out = []
        for c in f.calls_to('BTreeMap::insert'):
            if len(c.t['a']) < 3:
                continue
            recv = s.describe(s.operand(c.t['a'][0]))
            if 'pending_table_updates' not in recv:
                continue
            t = s.operand(c.t['a'][2])
            if t[0] == 'agg' and len(t) >= 5:
                st = f.blocks[t[3]]['s'][t[4]]
                out.append((c, st))
            else:
                out.append((c, None))
        return out

    f = ctx.fn('TableTreeMut::relocate_tables')
    if f is not None:
        s = core.sym(f)
        tl = staged_tuple(f)
        ctx.check(len(tl) == 1, 'floor|%s|staged' % f.path, 'relocate_tables stages exactly one tuple (found %d)' % len(tl), f, f.line)
        gl = {c.bb for c in f.calls_to('InternalTableDefinition::get_length')}
        rt = {c.bb for c in f.calls_to('InternalTableDefinition::relocate_tree')}
        for c, st in tl:
            ok = st is not None and len(st[2]['o']) == 3
            if ok:
                ln = s.operand(st[2]['o'][1])
                ok = ln[0] == 'call' and ln[1] in gl
            ctx._ob(ok, ctx.sample('arg-flow', f, c.line, 'staged length is definition.get_length()'))
            if not ok:
                ctx.violate('arg-flow|%s|staged-length' % f.path, 'the length staged for a relocated table is not the definition\'s own length (get_length()): for a multimap table the tree header counts keys, the table counts pairs', f, c.line)
    f = ctx.fn('TableTreeMut::stage_update_table_root')
    if f is not None:
        s = core.sym(f)
        tl = staged_tuple(f)
        ctx.check(len(tl) == 1, 'floor|%s|staged' % f.path, 'stage_update_table_root stages exactly one tuple (found %d)' % len(tl), f, f.line)
        for c, st in tl:
            ok = st is not None and len(st[2]['o']) == 3
            if ok:
                r0 = s.operand(st[2]['o'][0])
                r1 = s.operand(st[2]['o'][1])
                ok = r0 == ('arg', 3) and r1 == ('arg', 4)
            ctx._ob(ok, ctx.sample('arg-flow', f, c.line, 'staged (root, length) are the caller\'s arguments'))
            if not ok:
                ctx.violate('arg-flow|%s|staged-args' % f.path, 'stage_update_table_root does not stage its `table_root` and `length` arguments unchanged', f, c.line)
    # a renamed table takes its staged update along; a deleted table loses it
    f = ctx.fn('TableTreeMut::rename_table')
    if f is not None:
        s = core.sym(f)
        rm = [c for c in f.calls_to('BTreeMap::remove') if 'pending_table_updates' in s.describe(s.operand(c.t['a'][0]))]
        tl = [c for c in f.calls_to('BTreeMap::insert') if 'pending_table_updates' in s.describe(s.operand(c.t['a'][0]))]
        ctx.check(len(rm) == 1 and len(tl) == 1, 'floor|%s|move-staged' % f.path, 'rename moves the staged update (remove under the old name, insert under the new one)', f, f.line)
        for c in tl:
            t = s.operand(c.t['a'][2])
            ok = t[0] == 'place' and t[1][0] == 'call' and rm and t[1][1] == rm[0].bb
            ctx._ob(ok, ctx.sample('arg-flow', f, c.line, 'the re-keyed update is the removed one'))
            if not ok:
                ctx.violate('arg-flow|%s|rekeyed' % f.path, 'the staged update inserted under the new name is not the one removed under the old name', f, c.line)


# ------------------------------------------------------------------------------------ rules added after the deletion survey
def _ok_true_points(f):
    """statements `_0 = Ok(const true)`"""
    pts = []
    for bi, b in enumerate(f.blocks):
        if b['c']:
            continue
        for si, st in enumerate(b['s']):
            if st[0] == 'a' and st[1][0] == 0 and not st[1][1] and st[2]['k'] == 'agg' and st[2].get('v') == 'Ok' and len(st[2]['o']) == 1:
                o = st[2]['o'][0]
                if o[0] == 'k' and o[2] is True:
                    pts.append(Point(f, bi, si, 'return Ok(true)', st[3]))
    return pts


def allocator_snapshot_complete_rules(ctx):
    ctx.set_rule('C11.R7', 'a saved allocator snapshot is complete: every region and the region tracker are written before success is reported')
    f = ctx.fn(TM + '::try_save_allocator_state')
    if f is None:
        return
    s_ = core.sym(f)
    ins = ctx.sites(f, 'BtreeMut::insert_inplace', exact=2)
    reg = [p for p in ins if core.flows_from_call(f, p.call.t['a'][2], 'BuddyAllocator::to_vec')]
    trk = [p for p in ins if core.flows_from_call(f, p.call.t['a'][2], 'RegionTracker::to_vec')]
    ctx.check(len(reg) == 1 and len(trk) == 1, 'floor|%s|keys' % f.path, 'one in-place write of a region allocator and one of the region tracker (found %d / %d)' % (len(reg), len(trk)), f, f.line)
    if reg:
        ctx.each_iteration_passes(f, reg, 'every region allocator is written into the snapshot (or the save is given up)', 'region-skipped', allow_return=True)
        for p in reg:
            ctx.flows(f, p, 2, from_call='BuddyAllocator::to_vec', what='the bytes written are the region allocator\'s serialisation')
    okt = _ok_true_points(f)
    ctx.check(len(okt) == 1, 'floor|%s|ok-true' % f.path, 'try_save_allocator_state reports success at one place', f, f.line)
    if trk and okt:
        r = core.reach(f, cut_blocks={p.bb for p in trk})
        bad = [p for p in okt if core.point_reached(f, r, p.bb, p.idx)]
        ctx._ob(not bad, ctx.sample('must-pass', f, okt[0].line, 'success only after the region tracker was written'))
        if bad:
            ctx.violate('must-pass|%s|tracker-skipped' % f.path, 'try_save_allocator_state can report success without writing the region tracker', f, bad[0].line)
        for p in trk:
            ctx.flows(f, p, 2, from_call='RegionTracker::to_vec', what='the bytes written are the tracker\'s serialisation')
    if reg and okt:
        # success is reported only after the region loop ran to completion: the loop's exhaustion edge dominates it
        ctx.guarded(f, okt, [Guard(call='Iterator::next', vals={'None'})], 'success only after the region loop is exhausted')
    ctx.held(f, reg + trk, 'self.state')


def system_freed_store_rules(ctx):
    ctx.set_rule('C06.R10', 'system-tree pages freed by a commit are all recorded: each drained page is stored or deferred, each chunk under a fresh key')
    f = ctx.fn(WT + '::store_system_freed_pages')
    if f is not None:
        cls = [c for c in f.closures if c.calls_to('BtreeMut::insert_reserve')]
        ctx.check(len(cls) == 1, 'floor|%s|closure' % f.path, 'the closure that writes SYSTEM_FREED_TABLE exists', f, f.line)
        for cl in cls:
            ir = ctx.sites(cl, 'BtreeMut::insert_reserve', exact=1)
            pb = ctx.sites(cl, 'PageListMut::push_back', exact=1)
            vp = ctx.sites(cl, 'Vec::push', exact=1)
            clr = ctx.sites(cl, 'PageListMut::clear', exact=1)
            ctx.each_iteration_passes(cl, pb + vp, 'every drained page is written into the record or deferred to the caller', 'page-dropped', allow_return=False)
            ctx.order(cl, clr, pb, 'the reserved record is cleared before pages are appended')
            # fresh key per chunk: from insert_reserve, the next insert_reserve is reached only through an assignment to pagination_id
            pl = None
            for n_, pl_ in cl.mir['dbg']:
                if n_ == 'pagination_id' and not pl_[1]:
                    pl = pl_[0]
            ctx.check(pl is not None, 'floor|%s|pagination_id' % cl.path, 'the chunk counter exists', cl, cl.line)
            if pl is not None and ir:
                cuts = set()
                for bi, b in enumerate(cl.blocks):
                    for si, st in enumerate(b['s']):
                        if st[0] == 'a' and st[1][0] == pl and not st[1][1] and st[2]['k'] != 'use':
                            cuts.add((bi, si))
                        elif st[0] == 'a' and st[1][0] == pl and not st[1][1] and st[2]['k'] == 'use' and st[2]['o'][0] != 'k':
                            cuts.add((bi, si))
                r = core.reach(cl, start=(ir[0].bb, ir[0].idx), cut_points=cuts, cut_blocks=core.error_blocks(cl))
                again = any(cl.succ(bb_)[si_][0] == ir[0].bb for (bb_, si_) in r['edges'])
                ctx._ob(not again, ctx.sample('must-pass', cl, ir[0].line, 'the chunk key advances before the next record is reserved'))
                if again:
                    ctx.violate('must-pass|%s|key-reused' % cl.path, 'a second SYSTEM_FREED_TABLE record can be reserved under the same (transaction, pagination) key: it would overwrite the previous chunk', cl, ir[0].line)
                for p in ir:
                    ctx.flows(cl, p, 1, from_call=WT + '::next_system_freed_pagination_id', what='the first key continues after the records already stored for this transaction')
    f = ctx.fn(WT + '::non_durable_commit')
    if f is not None:
        st = ctx.sites(f, WT + '::store_system_freed_pages', exact=1)
        fl = ctx.sites(f, 'TableTreeMut::flush_table_root_updates', exact=2)
        if st and fl:
            r = core.reach(f, cut_blocks={p.bb for p in fl})
            ctx.check(st[0].bb not in r['term'], 'order|%s|flush-before-store' % f.path, 'system table roots are flushed before the system freed list is examined and stored', f, st[0].line)
        vp = [cpoint(c) for c in f.calls_to('Vec::push')]
        # the same collection written as `vec.extend(list.extract_if(..))`
        ve = [cpoint(c) for c in f.calls if c.matches(('Extend::extend', 'Vec::extend')) and not f.blocks[c.bb]['c'] and len(c.t['a']) > 1
              and c.t['a'][1][0] != 'k' and core.flows_from_call(f, c.t['a'][1], 'extract_if')]
        ctx.check(len(vp) + len(ve) == 1, 'floor|%s|post-commit-push' % f.path, 'unpersisted system pages are collected for release after the commit', f, f.line)
        fu = ctx.sites(f, TM + '::free_if_unpersisted', exact=1)
        if vp and not ve:
            ctx.each_iteration_passes(f, vp, 'every unpersisted freed system page is collected for the post-commit release', 'unpersisted-dropped', allow_return=True)
        if ve:
            ctx.must_pass(f, ve, exits='success', what='the unpersisted freed system pages are collected for the post-commit release')
        if fu:
            ctx.each_iteration_passes(f, fu, 'every collected page is released after the commit', 'post-commit-free-skipped', allow_return=True)
        cm = ctx.sites(f, TM + '::non_durable_commit', exact=1)
        ctx.order(f, cm, fu, 'collected pages are released only after the commit')


def handle_close_rules(ctx):
    ctx.set_rule('C17.R6', 'dropping a table handle closes it: the root and length are staged and the name is released')
    n = 0
    for pat, closer in (('<Table as Drop>::drop', WT + '::close_table'), ('<MultimapTable as Drop>::drop', WT + '::close_table'), ('<SystemTable as Drop>::drop', 'SystemNamespace::close_table')):
        f = ctx.fn(pat)
        if f is None:
            continue
        cl = ctx.sites(f, closer, exact=1)
        ctx.must_pass(f, cl, exits='any', what='every drop of the handle reaches close_table')
        n += 1
    ctx.check(n >= 3, 'floor|handle-drops', 'table handle Drop impls analysed: %d' % n)
    for pat, stage in (('TableNamespace::close_table', True), ('TableNamespace::close_table_without_update', False), ('SystemNamespace::close_table', True)):
        f = ctx.fn(pat)
        if f is None:
            continue
        s_ = core.sym(f)
        if pat.startswith('TableNamespace'):
            rm = [p for p in ctx.sites(f, 'BTreeMap::remove', exact=1) if 'open_tables' in s_.describe(s_.operand(p.call.t['a'][0]))]
            ctx.check(len(rm) == 1, 'floor|%s|release-name' % f.path, 'the table name leaves open_tables', f, f.line)
            ctx.must_pass(f, rm, exits='any', what='closing a table always releases its name')
            for p in rm:
                ctx.flows(f, p, 1, from_arg='name')
        if stage:
            su = ctx.sites(f, 'TableTreeMut::stage_update_table_root', exact=1)
            ctx.must_pass(f, su, exits='any', what='closing a table always stages its root')
            for p in su:
                ctx.flows(f, p, 1, from_arg='name')
                ctx.flows(f, p, 2, from_call='BtreeMut::get_root', what='the staged root is the handle\'s current root')
                ctx.flows(f, p, 3, from_arg='length', what='the staged length is the caller\'s')
    f = ctx.fn(WT + '::close_table')
    if f is not None:
        for p in ctx.sites(f, 'TableNamespace::close_table', exact=1):
            ctx.flows(f, p, 1, from_arg='name')
            ctx.flows(f, p, 2, from_arg='table')
            ctx.flows(f, p, 3, from_arg='length')


def commit_mode_setter_rules(ctx):
    ctx.set_rule('C01.R10', 'the commit-mode setters record what the caller asked for')
    for pat, field in ((WT + '::set_two_phase_commit', 'two_phase_commit'), (WT + '::set_quick_repair', 'quick_repair')):
        f = ctx.fn(pat)
        if f is None:
            continue
        st = ctx.stores(f, field, owner='WriteTransaction', floor=1)
        s_ = core.sym(f)
        for p in st:
            stt = f.blocks[p.bb]['s'][p.idx]
            ok = False
            rv = stt[2]
            if rv['k'] == 'use':
                ls, calls, args, consts = core.flow_sources(f, rv['o'])
                ok = bool(args) or bool(calls)
            elif rv['k'] == 'agg':
                ok = True
            ctx._ob(ok, ctx.sample('arg-flow', f, p.line, '%s stores a value derived from its argument' % pat))
            if not ok:
                ctx.violate('arg-flow|%s|%s' % (f.path, field), 'the value stored to WriteTransaction.%s is a constant, not the caller\'s argument' % field, f, p.line)
        ctx.must_pass(f, st, exits='success', what='the setter always stores')


def cache_reset_rules(ctx):
    ctx.set_rule('C02.R10', 'when in-memory state is discarded for the on-disk state, both caches are emptied before anything is read back')
    f = ctx.fn(TM + '::clear_cache_and_reload')
    if f is not None:
        dw = ctx.sites(f, PCF + '::discard_write_buffer', exact=1)
        iv = ctx.sites(f, PCF + '::invalidate_cache_all', exact=1)
        rd = ctx.sites(f, [PCF + '::read_direct', PCF + '::sync_file'], floor=2)
        ctx.order(f, dw, rd, 'buffered writes of the discarded state are dropped before the file is synced / read')
        ctx.order(f, iv, rd, 'cached pages of the discarded state are dropped before the file is synced / read')
    f = ctx.fn('Database::do_repair')
    if f is not None:
        rp = ctx.sites(f, TM + '::repair_primary_corrupted', exact=1)
        cr = ctx.sites(f, TM + '::clear_read_cache', exact=2)
        pv = ctx.sites(f, 'Database::primary_verifies', exact=2)
        if rp and cr and pv:
            # after the primary was rolled back, the cache is cleared before the trees are read again
            r = core.reach(f, start=(rp[0].bb, rp[0].idx), cut_blocks={p.bb for p in cr} | core.error_blocks(f))
            bad = [p for p in pv if p.bb in r['term']]
            ctx._ob(not bad, ctx.sample('order', f, rp[0].line, 'read cache cleared between repair_primary_corrupted and the next verification'))
            if bad:
                ctx.violate('order|%s|stale-cache-after-rollback' % f.path, 'after repair_primary_corrupted() the trees are verified again without clearing the read cache (pages of the rolled-back commit may still be cached)', f, bad[0].line)
        ccr = ctx.sites(f, TM + '::clear_recovery_required', exact=1)
        if ccr and cr:
            ctx.must_pass(f, cr, start=ccr[0], exits='success', what='the read cache is cleared after the allocator rebuild, before the repaired state is committed')
    g = ctx.fn(TM + '::clear_read_cache')
    if g is not None:
        ctx.must_pass(g, ctx.sites(g, PCF + '::invalidate_cache_all', exact=1), exits='any')


def compaction_progress_rules(ctx):
    ctx.set_rule('C13.R5', 'a compaction pass that moved pages is committed: progress is never reported for work that is then rolled back')
    f = ctx.fn('Database::compact')
    if f is None:
        return
    cp = ctx.sites(f, WT + '::compact_pages', exact=1)
    cm = ctx.sites(f, WT + '::commit', exact=1)
    ab = ctx.sites(f, WT + '::abort', floor=1)
    dr = ctx.sites(f, 'Database::drain_pending_free_pages', exact=2)
    ctx.guarded(f, cm, [Guard(call=WT + '::compact_pages', vals={'true'}), Guard(call=WT + '::compact_pages', vals={'Ok'})], 'the relocation commit follows a successful compact_pages')
    if cp and cm and dr:
        e_false = core.guard_edges(f, [false_of(WT + '::compact_pages')])
        r = core.reach(f, start=(cp[0].bb, cp[0].idx), cut_blocks={p.bb for p in cm} | core.error_blocks(f), cut_edges=e_false)
        bad = [p for p in dr if p.bb in r['term']]
        ctx._ob(not bad, ctx.sample('must-pass', f, cp[0].line, 'a pass that relocated pages is committed before the next drain'))
        if bad:
            ctx.violate('must-pass|%s|progress-without-commit' % f.path, 'compact() can go on to the next drain / pass after compact_pages() returned true without committing the relocation (the loop would report progress forever)', f, cp[0].line)


# ------------------------------------------------------------------------------------ state writers (from the deletion survey)
def _rv_operands(rv):
    k = rv['k']
    if k in ('use', 'un', 'cast', 'repeat'):
        return [rv['o']]
    if k in ('bin', 'agg'):
        return list(rv['o'])
    if k in ('ref', 'rawptr'):
        return [('c', rv['p'])]
    return []


def _field_store_points(f, field, deref_name=None):
    """assignments whose destination ends in `.field` -- or, with deref_name, `*<binding named so>`"""
    out = []
    for bi, b in enumerate(f.blocks):
        if b['c']:
            continue
        for si, st in enumerate(b['s']):
            if st[0] != 'a' or not st[1][1]:
                continue
            if deref_name is not None:
                if st[1][1] == ['*'] and f.local_name(st[1][0]) == deref_name:
                    out.append((Point(f, bi, si, 'store *%s' % deref_name, st[3]), st))
            elif st[1][1][-1] == '.' + field:
                out.append((Point(f, bi, si, 'store .%s' % field, st[3]), st))
    return out


def store_rule(ctx, fn_pat, field, src=None, what='', n=1, deref_name=None, exits='success', must=True):
    """the function writes `field` (at least n times), the written value derives from `src`
    (('arg', name) | ('call', pattern) | ('op', binop)), and the write is on every success path"""
    f = ctx.fn(fn_pat)
    if f is None:
        return 0
    pts = _field_store_points(f, field, deref_name)
    nm = deref_name or field
    ok = len(pts) >= n
    ctx._ob(ok, ctx.sample('stores', f, f.line, '%s writes %s' % (fn_pat, nm)))
    if not ok:
        ctx.violate('floor|%s|store %s' % (f.path, nm), 'expected at least %d write(s) of `%s` in %s (%s), found %d' % (n, nm, fn_pat, what, len(pts)), f, f.line)
        return 0
    for p, st in pts:
        rv = st[2]
        good = True
        if src is not None:
            ops = _rv_operands(rv)
            if src[0] == 'arg':
                good = any(o[0] != 'k' and core.flows_from_arg(f, o, src[1]) for o in ops)
            elif src[0] == 'call':
                good = any(o[0] != 'k' and core.flows_from_call(f, o, src[1]) for o in ops)
            elif src[0] == 'op':
                good = rv['k'] == 'bin' and rv['op'] in src[1:]
                if not good and rv['k'] == 'use' and rv['o'][0] != 'k':
                    t = core.sym(f).operand(rv['o'])
                    good = (t[0] == 'cmp' and t[1] in src[1:]) or (t[0] == 'place' and t[1][0] == 'cmp' and t[1][1] in src[1:])
        ctx._ob(good, ctx.sample('arg-flow', f, p.line, '%s: %s' % (nm, what)))
        if not good:
            ctx.violate('arg-flow|%s|store %s' % (f.path, nm), 'the value written to `%s` in %s does not derive from %s (%s)' % (nm, fn_pat, src, what), f, p.line)
    if must:
        ctx.must_pass(f, [p for p, _ in pts], exits=exits, what='%s always writes %s' % (fn_pat, nm))
    return 1


def call_rule(ctx, fn_pat, callee, what, exact=None, floor=1, exits='success', arg_from=None):
    f = ctx.fn(fn_pat)
    if f is None:
        return []
    cs = ctx.sites(f, callee, exact=exact, floor=floor)
    if cs:
        ctx.must_pass(f, cs, exits=exits, what=what)
        for (idx, src) in (arg_from or []):
            for p in cs:
                if src[0] == 'arg':
                    ctx.flows(f, p, idx, from_arg=src[1])
                else:
                    ctx.flows(f, p, idx, from_call=src[1])
    return cs


def state_writer_rules(ctx):
    H = 'DatabaseHeader'
    ctx.set_rule('C01.R11', 'the header mutators used by the commit protocol do what the protocol assumes')
    store_rule(ctx, H + '::write_secondary_slot', 'transaction_id', ('arg', 'transaction_id'), 'the new commit\'s id goes into the secondary slot')
    store_rule(ctx, H + '::write_secondary_slot', 'user_root', ('arg', 'user_root'), 'the new data root goes into the secondary slot')
    store_rule(ctx, H + '::write_secondary_slot', 'system_root', ('arg', 'system_root'), 'the new system root goes into the secondary slot')
    store_rule(ctx, H + '::swap_primary_slot', 'primary_slot', ('op', 'BitXor'), 'the primary index is flipped')
    f = ctx.fn(H + '::swap_primary_slot')
    if f is not None:
        for p_, st_ in _field_store_points(f, 'primary_slot'):
            ops_ = st_[2].get('o', []) if st_[2]['k'] == 'bin' else []
            ctx.check(any(o_[0] == 'k' and str(o_[2]) == '1' for o_ in ops_), 'const|%s|xor-1' % f.path, 'the primary index is xor-ed with 1', f, p_.line)
    store_rule(ctx, H + '::set_layout', 'full_regions', ('call', 'DatabaseLayout::num_full_regions'), 'the layout\'s region count is recorded')
    store_rule(ctx, H + '::set_layout', 'trailing_partial_region_pages', None, 'the trailing region size is recorded (both arms)', n=2)
    f = ctx.fn(H + '::write_secondary_slot')
    if f is not None:
        # the slot written is the non-primary one
        s_ = core.sym(f)
        idx_ok = False
        for b in f.blocks:
            for st in b['s']:
                if st[0] == 'a' and st[2]['k'] == 'bin' and st[2]['op'] == 'BitXor':
                    d0 = s_.describe(s_.operand(st[2]['o'][0]))
                    if d0.endswith('primary_slot'):
                        idx_ok = True
        ctx.check(idx_ok, 'shape|%s|secondary-index' % f.path, 'write_secondary_slot addresses transaction_slots[primary_slot ^ 1]', f, f.line)
    f = ctx.fn(H + '::to_bytes')
    if f is not None:
        # every header flag that recovery reads is serialised on the arm that tests it
        s_ = core.sym(f)
        ors = []
        for bi, b in enumerate(f.blocks):
            for si, st in enumerate(b['s']):
                if st[0] == 'a' and st[2]['k'] == 'bin' and st[2]['op'] == 'BitOr':
                    ors.append(Point(f, bi, si, 'god byte |= flag', st[3]))
        ctx.check(len(ors) >= 2, 'floor|%s|flags' % f.path, 'to_bytes ors the recovery-required and two-phase flags into the god byte (found %d)' % len(ors), f, f.line)
        flag_of = {}
        for p_ in ors:
            st_ = f.blocks[p_.bb]['s'][p_.idx]
            for o_ in st_[2]['o']:
                if o_[0] == 'k' and len(o_) > 3 and o_[3]:
                    flag_of[p_] = str(o_[3]).split('::')[-1]
        for fld in ('self.recovery_required', 'self.two_phase_commit'):
            e = core.guard_edges(f, [Guard(place=fld, vals={'true'})])
            ctx.check(bool(e), 'guard-missing|%s|%s' % (f.path, fld), 'to_bytes tests %s' % fld, f, f.line)
            if e and ors:
                r = core.reach(f, cut_edges=e)
                own = [p for p in ors if not core.point_reached(f, r, p.bb, p.idx)]
                want = {'self.recovery_required': 'RECOVERY_REQUIRED', 'self.two_phase_commit': 'TWO_PHASE_COMMIT'}[fld]
                ctx.check(any(flag_of.get(p) == want for p in own), 'guard|%s|%s|sets-bit' % (f.path, fld), 'the true arm of %s ors %s into the god byte (found %s)' % (fld, want, [flag_of.get(p) for p in own]), f, f.line)
        cps = ctx.sites(f, 'copy_from_slice', floor=5)

    ctx.set_rule('C03.R7', 'the tracker counters advance: a transaction / savepoint id is never handed out twice')
    store_rule(ctx, TT + '::reserve_transaction_id', 'next_transaction_id', ('arg', 'id'), 'the reserved id becomes the high-water mark')
    store_rule(ctx, TT + '::reserve_repair_transaction_id', 'next_transaction_id', ('arg', 'id'), 'a repair commit\'s id is never issued again')
    store_rule(ctx, TT + '::restore_savepoint_counter_state', 'next_savepoint_id', ('arg', 'next_savepoint'), 'the persisted savepoint counter is restored on open')
    store_rule(ctx, TT + '::allocate_savepoint', 'next_savepoint_id', ('call', 'SavepointId::next'), 'the savepoint counter advances with every allocation')
    f = ctx.fn(TT + '::allocate_savepoint')
    if f is not None:
        ins = ctx.sites(f, 'BTreeMap::insert', exact=1)
        ctx.must_pass(f, ins, exits='any', what='an allocated savepoint is registered as valid')
        ctx.held(f, ins, TTSTATE)
    for pat, callee, what in ((TT + '::register_persistent_savepoint', 'BTreeSet::insert', 'a re-registered persistent savepoint is recorded as persistent'),
                              (TT + '::mark_savepoint_persistent', 'BTreeSet::insert', 'a savepoint made persistent is recorded as persistent')):
        call_rule(ctx, pat, callee, what, floor=1, exits='any')
    f = ctx.fn(TT + '::deallocate_savepoint')
    if f is not None:
        s_ = core.sym(f)
        rm = [p for p in ctx.sites(f, ['BTreeMap::remove', 'BTreeSet::remove'], exact=2)]
        subj = sorted(s_.describe(s_.operand(p.call.t['a'][0])).split('.')[-1] for p in rm)
        ctx.check(subj == ['persistent_savepoints', 'valid_savepoints'], 'shape|%s|removes' % f.path, 'a deallocated savepoint leaves valid_savepoints and persistent_savepoints (found %s)' % subj, f, f.line)
        ctx.must_pass(f, rm[:1], exits='any') if rm else None
        for p in rm:
            ctx.must_pass(f, [p], exits='any', what='both sets forget the savepoint')
    for nm in ('TransactionId',):
        g = ctx.fn(nm + '::increment')
        if g is not None:
            pts = [(Point(g, bi, si, 'store *self', st[3]), st) for bi, b in enumerate(g.blocks) for si, st in enumerate(b['s']) if st[0] == 'a' and st[1] == [1, ['*']]]
            ctx.check(len(pts) >= 1, 'floor|%s|advance' % g.path, '%s::increment advances the counter in place' % nm, g, g.line)

    ctx.set_rule('C10.R8', 'the finalized root replaces the tree\'s root')
    store_rule(ctx, 'BtreeMut::finalize_dirty_checksums', 'root', ('call', 'UntypedBtreeMut::finalize_dirty_checksums'), 'the root with real checksums is kept')
    store_rule(ctx, 'UntypedBtreeMut::finalize_dirty_checksums', 'root', ('call', 'UntypedBtreeMut::finalize_dirty_checksums_helper'), 'the root with real checksums is kept', must=False)
    f = ctx.fn('UntypedBtreeMut::finalize_dirty_checksums')
    if f is not None:
        hp = ctx.sites(f, 'UntypedBtreeMut::finalize_dirty_checksums_helper', exact=1)
        pts = [p for p, _ in _field_store_points(f, 'root')]
        if hp and pts:
            ctx.must_pass(f, pts, start=hp[0], exits='success', what='after the checksums were recomputed the new root is stored')
    for pat in ('BtreeMut::set_root', 'TableTreeMut::set_root'):
        g = ctx.fn(pat)
        if g is not None:
            if pat.startswith('BtreeMut'):
                store_rule(ctx, pat, 'root', ('arg', 'root'), 'set_root stores its argument', exits='any')
            else:
                call_rule(ctx, pat, 'BtreeMut::set_root', 'the catalog root is replaced', exact=1, exits='any', arg_from=[(1, ('arg', 'root'))])

    ctx.set_rule('C17.R7', 'the catalog sees what the transaction staged: pending roots reach lookups, relocation, flush; callbacks run')
    for pat in ('TableTreeMut::get_table_untyped', 'TableTreeMut::get_table', 'TableTreeMut::relocate_tables', 'TableTreeMut::highest_index_pages'):
        f = ctx.fn(pat)
        if f is None:
            continue
        sh = ctx.sites(f, 'InternalTableDefinition::set_header', exact=1)
        gt = ctx.sites(f, 'BTreeMap::get', exact=1)
        if sh and gt:
            e_none = core.guard_edges(f, [Guard(call='BTreeMap::get', vals={'None'})])
            # from the lookup of a staged update, the definition is used only after set_header -- unless nothing is staged
            uses = [cpoint(c) for c in f.calls if c.matches(['InternalTableDefinition::relocate_tree', 'InternalTableDefinition::visit_all_pages', 'InternalTableDefinition::check_match', 'InternalTableDefinition::check_match_untyped'])]
            r = core.reach(f, start=(gt[0].bb, gt[0].idx), cut_blocks={p.bb for p in sh} | core.error_blocks(f), cut_edges=e_none)
            bad = [u for u in uses if u.bb in r['term']]
            rets = [rb for rb in f.ret_blocks() if rb in r['term']]
            ctx._ob(not bad and not rets, ctx.sample('must-pass', f, gt[0].line, 'a staged root is applied to the definition before it is used'))
            if bad or rets:
                ctx.violate('must-pass|%s|staged-root-ignored' % f.path, 'the definition can be used (or returned) without the root / length staged earlier in this transaction', f, gt[0].line)
            for p in sh:
                ctx.flows(f, p, 1, from_call='BTreeMap::get')
                ctx.flows(f, p, 2, from_call='BTreeMap::get')
    call_rule(ctx, 'TableTreeMut::relocate_tables', 'BtreeMut::relocate', 'the catalog tree itself is relocated', exact=1)
    f = ctx.fn('TableTreeMut::rename_table')
    if f is not None:
        cmu = ctx.sites(f, 'InternalTableDefinition::check_match_untyped', exact=1)
        mut = ctx.sites(f, ['BtreeMut::remove', 'BtreeMut::insert'], exact=2)
        somes = []
        for bi, b_ in enumerate(f.blocks):
            for si, s2 in enumerate(b_['s']):
                if s2[0] == 'a' and s2[2]['k'] == 'agg' and s2[2]['v'] == 'Some' and f.local_name(s2[1][0]) == 'stored_definition':
                    somes.append(Point(f, bi, si, 'stored_definition = Some(..)', s2[3]))
        ctx.check(len(somes) == 1, 'floor|%s|stored-definition' % f.path, 'the stored definition is captured at one place', f, f.line)
        ctx.guarded(f, somes, [ok('InternalTableDefinition::check_match_untyped')], 'the definition to move is accepted only after its kind was checked')
        ctx.guarded(f, mut, [Guard(place='stored_definition', vals={'Some'})], 'the catalog is changed only for an accepted definition')
        for p in cmu:
            ctx.flows(f, p, 1, from_arg='table_type')
    f = ctx.fn('TableTreeMut::flush_table_root_updates')
    if f is not None:
        for nm, n_ in (('table_length', 2), ('table_root', 2)):
            pts = _field_store_points(f, None, deref_name=nm)
            ctx.check(len(pts) >= n_, 'floor|%s|store %s' % (f.path, nm), 'flush_table_root_updates writes the staged %s into the definition for both table kinds (found %d)' % (nm, len(pts)), f, f.line)
            for p, st in pts:
                good = any(o[0] != 'k' and core.flows_from_call(f, o, 'mem::take') for o in _rv_operands(st[2]))
                ctx._ob(good, ctx.sample('arg-flow', f, p.line, 'the written %s is the staged one' % nm))
                if not good:
                    ctx.violate('arg-flow|%s|%s' % (f.path, nm), 'the %s written into the definition is not the staged value' % nm, f, p.line)
    for pat in ('TableTreeMut::open_table_and_flush_table_root', 'TableTreeMut::create_table_and_flush_table_root'):
        f = ctx.fn(pat)
        if f is None:
            continue
        cb = [cpoint(c, 'callback') for c in f.calls if c.declared and c.declared.split('::')[-1] in ('call_once', 'call_mut', 'call') and c.resolved is None]
        ctx.check(len(cb) == 1, 'floor|%s|callback' % f.path, 'the caller\'s closure is invoked', f, f.line)
        ctx.must_pass(f, cb, exits='success', what='the table is handed to the caller\'s closure on every success path')
    f = ctx.fn('TableTreeMut::get_or_create_table')
    if f is not None:
        ins = ctx.sites(f, 'BtreeMut::insert', exact=1)
        e_some = core.guard_edges(f, [Guard(call='TableTreeMut::get_table', vals={'Some'})])
        ctx.must_pass(f, ins, exits='success', extra_cut_edges=e_some, what='a table that did not exist is entered into the catalog')

    ctx.set_rule('C06.R11', 'page lists record what is pushed')
    f = ctx.fn('PageListMut::push_back')
    if f is not None:
        ctx.sites(f, 'copy_from_slice', exact=2)
        for p in ctx.sites(f, 'copy_from_slice', exact=2):
            ctx.must_pass(f, [p], exits='any', what='both the count and the entry are written')
    f = ctx.fn('PageListMut::clear')
    if f is not None:
        call_rule(ctx, 'PageListMut::clear', 'fill', 'clear resets the count', floor=1, exits='any')


def _named_consts_used(f):
    out = set()

    def op(o):
        if o and o[0] == 'k' and len(o) > 3 and o[3]:
            out.add(str(o[3]).split('::')[-1])
    for b in f.blocks:
        if b['c']:
            continue
        for st in b['s']:
            if st[0] == 'a':
                for o in _rv_operands(st[2]):
                    op(o)
        t = b['t']
        if t['k'] == 'call':
            for a in t['a']:
                op(a)
    return out


def header_codec_rules(ctx):
    """Writer and reader of the two header records name the same fields: every *_OFFSET (and flag bit) the
    parser reads is one the serialiser writes, and the other way round."""
    ctx.set_rule('C19.R6', 'header serialiser and parser agree on the set of fields (offset and flag constants)')
    pairs = [('DatabaseHeader::to_bytes', 'UnrepairedDatabaseHeader::from_bytes', 10), ('TransactionHeader::to_bytes', 'TransactionHeader::from_bytes', 7)]
    for w, r, floor in pairs:
        fw, fr = ctx.fn(w), ctx.fn(r)
        if fw is None or fr is None:
            continue
        keep = lambda n: n.endswith('_OFFSET') or n in ('RECOVERY_REQUIRED', 'TWO_PHASE_COMMIT')
        sw = {n for n in _named_consts_used(fw) if keep(n)}
        sr = {n for n in _named_consts_used(fr) if keep(n)}
        ctx.check(len(sw) >= floor, 'floor|%s|fields' % fw.path, '%s writes at least %d named fields (found %d)' % (w, floor, len(sw)), fw, fw.line)
        only_r = sorted(sr - sw)
        only_w = sorted(sw - sr)
        ctx._ob(not only_r, ctx.sample('agreement', fw, fw.line, 'every field %s reads is written by %s' % (r, w)))
        if only_r:
            ctx.violate('agreement|%s|not-written|%s' % (fw.path, ','.join(only_r)), '%s reads %s which %s never writes' % (r, only_r, w), fw, fw.line)
        ctx._ob(not only_w, ctx.sample('agreement', fr, fr.line, 'every field %s writes is read by %s' % (w, r)))
        if only_w:
            ctx.violate('agreement|%s|not-read|%s' % (fr.path, ','.join(only_w)), '%s writes %s which %s never reads' % (w, only_w, r), fr, fr.line)
    f = ctx.fn('DatabaseHeader::to_bytes')
    if f is not None:
        th = ctx.sites(f, 'TransactionHeader::to_bytes', exact=2)
        for p in th:
            ctx.must_pass(f, [p], exits='any', what='both commit slots are serialised')


def mutator_release_rules(ctx):
    """Copy-on-write in the B-tree mutator: whenever a replacement page was built for the page being
    changed, the page it replaces is released (freed if this transaction allocated it, queued otherwise)
    before the function reports the replacement.  Helpers that only build (and leave the release to their
    caller) are not listed; the confirmed exceptions are the two insert fast paths that keep the original
    leaf and add a one-entry sibling."""
    ctx.set_rule('C06.R12', 'a rebuilt B-tree page releases the page it replaces on every success path')
    MH = 'MutateHelper'
    BUILD = ['LeafBuilder::build', 'LeafBuilder::build_split', 'BranchBuilder::build', 'BranchBuilder::build_split', MH + '::finalize_branch_builder',
             MH + '::build_leaf_except_indexes', MH + '::build_replacement_leaves', PA + '::allocate']
    REL = [MH + '::conditional_free', PA + '::free', 'Vec::push', PA + '::conditional_free', PA + '::free_if_uncommitted']
    table = [(MH + '::apply_child_deletion_result', 12), (MH + '::insert_helper', 6), (MH + '::replace_leaf_children', 2), (MH + '::delete_leaf_at_position', 1), (MH + '::delete_leaf_indexes', 1)]
    n = 0
    for pat, floor in table:
        f = ctx.fn(pat)
        if f is None:
            continue
        s_ = core.sym(f)
        bs = [c for c in f.calls if c.matches(BUILD) and not f.blocks[c.bb]['c']]
        rel = [c for c in f.calls if c.matches(REL) and not f.blocks[c.bb]['c']]
        relb = {c.bb for c in rel}
        kept = 0
        checked = 0
        for b in bs:
            # the keep-the-original fast paths: a builder created for exactly one pair
            t = s_.operand(b.t['a'][0]) if b.t['a'] else None
            one = False
            if t is not None and t[0] == 'call':
                nc = core.CallSite(f, t[1], f.blocks[t[1]]['t'])
                if nc.matches('LeafBuilder::new') and len(nc.t['a']) > 2 and nc.t['a'][2][0] == 'k' and str(nc.t['a'][2][2]) == '1':
                    one = True
            if one and pat.endswith('insert_helper'):
                kept += 1
                continue
            checked += 1
            r = core.reach(f, start=(b.bb, len(f.blocks[b.bb]['s'])), cut_blocks=relb | core.error_blocks(f))
            bad = [rb for rb in f.ret_blocks() if rb in r['term']]
            ctx._ob(not bad, ctx.sample('must-pass', f, b.line, 'replacement built by %s => original released before return' % b.callee.split('::')[-1]))
            if bad:
                path = core.path_lines(f, core.find_path(f, bad[0], cut_blocks=relb | core.error_blocks(f), start=(b.bb, len(f.blocks[b.bb]['s']))))
                ctx.violate('must-pass|%s|built-not-released|%s' % (f.path, b.callee.split('::')[-1]), 'after %s built a replacement page the function can return successfully without releasing or queueing the page it replaces' % b.callee.split('::')[-1], f, b.line, path)
        ctx.check(checked >= floor, 'floor|%s|build-sites' % f.path, '%s: %d build sites checked (confirmed floor %d)' % (pat, checked, floor), f, f.line)
        if pat.endswith('insert_helper'):
            ctx.check(kept == 2, 'shape|%s|keep-original-paths' % f.path, 'insert_helper has exactly the two confirmed keep-the-original fast paths (found %d)' % kept, f, f.line)
        n += 1
    ctx.check(n >= 5, 'floor|mutator-fns', 'mutator functions analysed: %d' % n)
    # the page released at the tail of apply_child_deletion_result is the branch page being rebuilt
    f = ctx.fn(MH + '::apply_child_deletion_result')
    if f is not None:
        s_ = core.sym(f)
        gp = [c for c in f.calls if c.matches('PageImpl::get_page_number') or c.matches('Page::get_page_number')]
        orig = None
        for c in gp:
            t = s_.operand(c.t['a'][0])
            if t == ('arg', 2) or (t[0] == 'place' and t[1] == ('arg', 2)):
                orig = c if orig is None or c.line < orig.line else orig
        ctx.check(orig is not None, 'floor|%s|original-page-number' % f.path, 'the number of the page being rebuilt is read', f, f.line)
        if orig is not None:
            own = [cpoint(c) for c in f.calls_to(MH + '::conditional_free') if s_.operand(c.t['a'][1]) == ('call', orig.bb)]
            ctx.check(len(own) >= 3, 'floor|%s|release-original' % f.path, 'the rebuilt branch page itself is released at the three confirmed places (found %d)' % len(own), f, f.line)
            bn = sorted(ctx.sites(f, 'BranchBuilder::new', floor=1), key=lambda p: p.line)
            if bn and own:
                ctx.must_pass(f, own, start=bn[0], exits='success', what='once a replacement branch is being built, the original branch page is released on every success path')
    # leaf deletion: every success path either edits the uncommitted page in place or releases it
    for pat in (MH + '::delete_leaf_indexes', MH + '::delete_leaf_at_position'):
        f = ctx.fn(pat)
        if f is None:
            continue
        rel = [cpoint(c) for c in f.calls if c.matches(REL)]
        inplace = [cpoint(c) for c in f.calls if c.matches(PA + '::get_page_mut')]
        ctx.must_pass(f, rel + inplace, exits='success', what='a leaf deletion edits its own uncommitted page in place or releases the page it replaces')


def free_verdict_rules(ctx):
    """`free_if_uncommitted` releases a page only when this transaction allocated it and says so; a caller
    that does not look at the answer leaves a committed page neither freed nor queued."""
    ctx.set_rule('C06.R13', 'the verdict of free_if_uncommitted is acted on: a page that was not released is queued on a freed list')
    n = 0
    for path, sites in sorted(ctx.facts.callers_of(PA + '::free_if_uncommitted', root=False).items()):
        for c in sites:
            f = c.fn
            if f.blocks[c.bb]['c']:
                continue
            n += 1
            disc = core.is_discarded(f, c.t['d'][0]) if not c.t['d'][1] else False
            ctx._ob(not disc, ctx.sample('discard', f, c.line, 'result of free_if_uncommitted is used'))
            if disc:
                ctx.violate('discard|%s|free_if_uncommitted' % f.path, 'the result of free_if_uncommitted is ignored: a page from an earlier commit is then neither released nor queued for release', f, c.line)
                continue
            if c.t['d'] == [0, []]:
                continue  # returned to the caller (PageAllocator::conditional_free's own wrapper logic is checked below)
            pushes = {p.bb for p in f.calls if p.matches(['Vec::push', 'Vec::extend', 'Vec::append'])}
            e_true = set()
            for bb in range(f.nb):
                if f.blocks[bb]['t']['k'] != 'sw':
                    continue
                for si, fs in enumerate(core.edge_facts(f, bb)):
                    if any(x.kind == 'call' and x.call is not None and x.call.bb == c.bb and 'true' in x.vals and 'false' not in x.vals for x in fs):
                        e_true.add((bb, si))
            tested = bool(e_true)
            ctx._ob(tested, ctx.sample('guard', f, c.line, 'the verdict is tested'))
            if not tested:
                ctx.violate('guard-missing|%s|free_if_uncommitted' % f.path, 'the verdict of free_if_uncommitted is never tested', f, c.line)
                continue
            nxt = [m for m in f.calls if m.declared and m.declared.split('::')[-1] == 'next' and 'Iterator' in m.declared]
            r = core.reach(f, start=(c.bb, len(f.blocks[c.bb]['s'])), cut_edges=e_true, cut_blocks=pushes | core.error_blocks(f))
            looped = [m for m in nxt if m.bb in r['term']]
            fin = [rb for rb in f.ret_blocks() if rb in r['term']]
            ok_ = not looped and not fin
            ctx._ob(ok_, ctx.sample('must-pass', f, c.line, 'not released => queued'))
            if not ok_:
                ctx.violate('must-pass|%s|not-freed-not-queued' % f.path, 'when free_if_uncommitted returns false the page can be left neither released nor queued', f, c.line)
    ctx.check(n >= 7, 'floor|free_if_uncommitted-sites', 'free_if_uncommitted call sites analysed: %d' % n)


def key_compare_rules(ctx):
    """Sibling agreement over every `Key::compare` implementation of the crate: each component comparison
    takes its receiver from the first byte string and its operand from the second.  A swapped component
    is still a total order -- every table keeps working -- but range scans over composite system keys
    ((transaction, pagination)) then include or exclude the wrong records."""
    ctx.set_rule('C06.R14', 'every Key::compare compares its first argument with its second in every component (sibling agreement)')
    n = 0
    for f in ctx.facts.fn_list:
        if not (f.path.endswith('::compare') and ' as ' in f.path and f.path.split(' as ')[1].startswith(('types::Key>', 'crate::types::Key>', 'redb::types::Key>'))):
            continue
        if f.kind == 'closure':
            continue
        cm = [c for c in f.calls if (c.declared or '').split('::')[-1] in ('cmp', 'compare', 'partial_cmp', 'total_cmp') and not f.blocks[c.bb]['c'] and len(c.t['a']) == 2]
        if not cm:
            continue
        n += 1
        # component comparisons inside closures of the compare function (`then_with(|| ...)`): the captured
        # variables are traced back to the parent's parameters by name
        for cl in f.closures:
            scl = core.sym(cl)
            for c in cl.calls:
                if (c.declared or '').split('::')[-1] not in ('cmp', 'compare', 'partial_cmp', 'total_cmp') or cl.blocks[c.bb]['c'] or len(c.t['a']) != 2:
                    continue
                src = []
                for a in c.t['a']:
                    d = scl.describe(scl.operand(a))
                    root = re.split(r'[.\[@]|__', d)[0]
                    args_ = set()
                    for i_ in range(len(f.locals)):
                        if f.local_name(i_) == root:
                            args_ |= core.flow_sources(f, i_)[2]
                    src.append(args_)
                ok_ = src[0] <= {1} and src[1] <= {2} and bool(src[0]) and bool(src[1])
                ctx._ob(ok_, ctx.sample('arg-flow', cl, c.line, 'component comparison in a closure is (first, second)'))
                if not ok_:
                    ctx.violate('arg-flow|%s|swapped-component|closure' % f.path, 'a component comparison inside a closure of this Key::compare does not compare the first key with the second (receiver from args %s, operand from args %s)' % (sorted(src[0]), sorted(src[1])), cl, c.line)
        for c in cm:
            a0 = core.flow_sources(f, c.t['a'][0])[2]
            a1 = core.flow_sources(f, c.t['a'][1])[2]
            ok_ = a0 <= {1} and a1 <= {2} and bool(a0) and bool(a1)
            ctx._ob(ok_, ctx.sample('arg-flow', f, c.line, 'component comparison is (first, second)'))
            if not ok_:
                ctx.violate('arg-flow|%s|swapped-component|%d' % (f.path, cm.index(c)), 'a component comparison in this Key::compare does not compare the first key with the second (receiver from args %s, operand from args %s): the order is reversed or mixed for that component' % (sorted(a0), sorted(a1)), f, c.line)
    ctx.check(n >= 15, 'floor|key-compare-impls', 'Key::compare implementations analysed: %d' % n)


def child_pair_rules(ctx):
    """A branch entry is (child page, child checksum).  Wherever the mutators copy an existing entry into a
    new or rewritten branch, both halves come from the same place: the same tuple / struct / enum payload,
    or `child_page(i)` and `child_checksum(i)` of the same accessor and index; a page built in this
    transaction carries the DEFERRED placeholder.  A checksum taken from a different entry is committed
    unchanged when the child is clean (checksums are only recomputed for dirty pages)."""
    ctx.set_rule('C10.R9', 'a child page number and its checksum travel together (same source, or DEFERRED for a fresh page)')
    n = 0
    for f in ctx.facts.fn_list:
        if f.kind == 'closure' and False:
            continue
        s_ = None
        for c in f.calls:
            if f.blocks[c.bb]['c']:
                continue
            if c.matches('BranchBuilder::push_child'):
                k = 1
            elif c.matches('BranchBuilder::replace_child') or c.matches('BranchMutator::write_child_page'):
                k = 2
            else:
                continue
            if len(c.t['a']) < k + 2:
                continue
            s_ = s_ or core.sym(f)
            n += 1
            tp = s_.operand(c.t['a'][k])
            tc = s_.operand(c.t['a'][k + 1])
            ok_ = False
            why = ''
            if tc[0] == 'const':
                ok_ = str(tc[2]) == '999'
                why = 'constant checksum %s is not DEFERRED' % (tc[2],)
            elif tp[0] == 'place' and tc[0] == 'place':
                pp = tuple(x for x in tp[2] if x != '*')
                pc = tuple(x for x in tc[2] if x != '*')
                ok_ = tp[1] == tc[1] and pp[:-1] == pc[:-1] and pp != pc
                why = 'page comes from %s, checksum from %s' % (s_.describe(tp), s_.describe(tc))
            elif tp[0] == 'call' and tc[0] == 'call':
                cp_ = core.CallSite(f, tp[1], f.blocks[tp[1]]['t'])
                cc_ = core.CallSite(f, tc[1], f.blocks[tc[1]]['t'])
                if cp_.matches('Option::unwrap') and cc_.matches('Option::unwrap') and cp_.t['a'] and cc_.t['a']:
                    ip = s_.operand(cp_.t['a'][0])
                    ic = s_.operand(cc_.t['a'][0])
                    if ip[0] == 'call' and ic[0] == 'call':
                        a_ = core.CallSite(f, ip[1], f.blocks[ip[1]]['t'])
                        b_ = core.CallSite(f, ic[1], f.blocks[ic[1]]['t'])
                        if a_.matches('BranchAccessor::child_page') and b_.matches('BranchAccessor::child_checksum'):
                            ok_ = s_.operand(a_.t['a'][0]) == s_.operand(b_.t['a'][0]) and s_.operand(a_.t['a'][1]) == s_.operand(b_.t['a'][1])
                            why = 'child_page and child_checksum are read with different accessors or indexes'
                        else:
                            why = 'not child_page / child_checksum'
                else:
                    why = 'page from %s, checksum from %s' % (s_.describe(tp), s_.describe(tc))
            else:
                why = 'page comes from %s, checksum from %s' % (s_.describe(tp), s_.describe(tc))
            ctx._ob(ok_, ctx.sample('pair', f, c.line, 'child page and checksum from one source'))
            if not ok_:
                ctx.violate('pair|%s|%s' % (f.path, c.callee.split('::')[-1]), 'a branch entry is assembled from a page number and a checksum of different origin (%s)' % why, f, c.line)
    ctx.check(n >= 35, 'floor|child-pair-sites', 'branch entry writes analysed: %d' % n)


def buddy_split_rules(ctx):
    """Buddy allocator bookkeeping (bitmap bit set = allocated, clear = free): a block obtained by splitting
    the next order leaves its other half free; a candidate taken while searching for the lowest block is
    either kept or given back; marking a page allocated sets its bit or splits its parent."""
    ctx.set_rule('C14.R4', 'splitting a block frees the other half; every candidate block is kept or given back')
    BA = 'BuddyAllocator'
    f = ctx.fn(BA + '::alloc_inner')
    if f is not None:
        rec = ctx.sites(f, BA + '::alloc_inner', exact=1)
        clr = ctx.sites(f, 'BtreeBitmap::clear', exact=1)
        e_none = core.guard_edges(f, [Guard(call=BA + '::alloc_inner', vals={'None'})])
        if rec and clr:
            ctx.must_pass(f, clr, start=rec[0], exits='any', extra_cut_edges=e_none, what='after taking a block of the next order, its second half is marked free at this order')
        al = ctx.sites(f, 'BtreeBitmap::alloc', exact=1)
        ctx.order(f, al, rec, 'the own order is tried before a larger block is split')
    f = ctx.fn(BA + '::alloc_lowest')
    if f is not None:
        ai = ctx.sites(f, BA + '::alloc_inner', exact=2)
        fi = ctx.sites(f, BA + '::free_inner', exact=2)
        clr = ctx.sites(f, 'BtreeBitmap::clear', exact=1)
        # the candidate loop: from the in-loop alloc_inner (the one reached after an Iterator::next), a Some result leads to a free_inner before the loop advances
        nxt = [c for c in f.calls if c.declared and c.declared.split('::')[-1] == 'next' and 'Iterator' in c.declared]
        inloop = None
        for p in ai:
            for n_ in nxt:
                r = core.reach(f, start=(n_.bb, len(f.blocks[n_.bb]['s'])), cut_blocks={q.bb for q in ai if q is not p})
                if p.bb in r['term']:
                    r2 = core.reach(f, start=(p.bb, len(f.blocks[p.bb]['s'])))
                    if n_.bb in r2['term']:
                        inloop = (p, n_)
        ctx.check(inloop is not None, 'shape|%s|candidate-loop' % f.path, 'the candidate loop over higher orders was found', f, f.line)
        if inloop is not None:
            p, n_ = inloop
            e_none = set()
            for bb in range(f.nb):
                if f.blocks[bb]['t']['k'] != 'sw':
                    continue
                for si, fs in enumerate(core.edge_facts(f, bb)):
                    if any(x.kind == 'call' and x.call is not None and x.call.bb == p.bb and x.vals == frozenset({'None'}) for x in fs):
                        e_none.add((bb, si))
            r = core.reach(f, start=(p.bb, len(f.blocks[p.bb]['s'])), cut_blocks={q.bb for q in fi}, cut_edges=e_none)
            again = n_.bb in r['term']
            ctx._ob(not again, ctx.sample('must-pass', f, p.line, 'a candidate block is kept (the old best given back) or given back'))
            if again:
                ctx.violate('must-pass|%s|candidate-leaked' % f.path, 'a block taken while searching for the lowest one can be neither kept nor given back (free_inner skipped)', f, p.line)
    f = ctx.fn(BA + '::record_alloc_inner')
    if f is not None:
        rec = ctx.sites(f, BA + '::record_alloc_inner', exact=1)
        clr = ctx.sites(f, 'BtreeBitmap::clear', exact=2)
        st = ctx.sites(f, 'BtreeBitmap::set', exact=1)
        if rec:
            e_false = core.guard_edges(f, [false_of(BA + '::record_alloc_inner')])
            ctx.must_pass(f, clr, start=rec[0], exits='any', extra_cut_edges=e_false, what='after splitting the parent, the other half is marked free')
        # every `true` result went through set or clear
        trues = []
        for i, b_ in enumerate(f.blocks):
            for j, s_ in enumerate(b_['s']):
                if s_[0] == 'a' and s_[1][0] == 0 and not s_[1][1] and s_[2]['k'] == 'use' and s_[2]['o'][0] == 'k' and s_[2]['o'][2] is True:
                    trues.append(Point(f, i, j, 'return true', s_[3]))
        if trues:
            r = core.reach(f, cut_blocks={p.bb for p in clr + st})
            bad = [t for t in trues if core.point_reached(f, r, t.bb, t.idx)]
            ctx._ob(not bad, ctx.sample('must-pass', f, f.line, 'success only after the bitmap was updated'))
            if bad:
                ctx.violate('must-pass|%s|true-without-update' % f.path, 'record_alloc_inner can report success without marking the page allocated or splitting its parent', f, bad[0].line)


def root_pair_rules(ctx):
    """Wherever a (data root, system root) pair is handed on -- verification, both commit flavours, the
    header slot -- each half comes from a source of its own kind: what is passed as the system root never
    derives from a data-root source and vice versa (the two have the same type, so nothing else notices)."""
    ctx.set_rule('C12.R6', 'data root and system root are never exchanged or duplicated where the pair is passed on')
    DATA_SRC = [TM + '::get_data_root', 'TransactionHeader::user_root', 'TableNamespace::table_tree', ]
    SYS_SRC = [TM + '::get_system_root', 'TableTreeMut::finalize_dirty_checksums']
    DATA_NAMES = ('data_root', 'user_root')
    n = 0
    for g in ctx.facts.fn_list:
        if g.kind == 'closure':
            continue
        names = [g.local_name(i) for i in range(1, g.argc + 1)]
        di = [i for i, nm in enumerate(names) if nm in DATA_NAMES]
        si = [i for i, nm in enumerate(names) if nm == 'system_root']
        if not di or not si:
            continue
        pat = core.strip_generics(g.path)
        for path, sites in sorted(ctx.facts.callers_of(pat, root=False).items()):
            for c in sites:
                f = c.fn
                if f.blocks[c.bb]['c'] or len(c.t['a']) <= max(di[0], si[0]):
                    continue
                n += 1
                ad, as_ = c.t['a'][di[0]], c.t['a'][si[0]]
                fnames = {f.local_name(l) for l in core.flow_sources(f, ad)[2]} if ad[0] != 'k' else set()
                snames = {f.local_name(l) for l in core.flow_sources(f, as_)[2]} if as_[0] != 'k' else set()
                bad = []
                if ad[0] != 'k' and (core.flows_from_call(f, ad, TM + '::get_system_root') or 'system_root' in fnames):
                    bad.append('the data root argument derives from a system-root source')
                if as_[0] != 'k' and (core.flows_from_call(f, as_, TM + '::get_data_root') or (fnames and snames & set(DATA_NAMES))):
                    bad.append('the system root argument derives from a data-root source')
                ctx._ob(not bad, ctx.sample('arg-flow', f, c.line, '(data root, system root) passed to %s in order' % pat.split('::')[-1]))
                if bad:
                    ctx.violate('arg-flow|%s|root-pair|%s' % (f.path, pat.split('::')[-1]), '%s (call of %s)' % ('; '.join(bad), pat), f, c.line)
    ctx.check(n >= 8, 'floor|root-pair-sites', 'call sites passing a (data root, system root) pair analysed: %d' % n)


def replaced_range_rules(ctx):
    """`replace_leaf_children` widens the range of replaced children when it absorbs a neighbour; the list of
    leaf pages to release is read off that range and therefore must be taken after the last widening."""
    ctx.set_rule('C06.R15', 'the pages released by replace_leaf_children are read from the final range of replaced children')
    f = ctx.fn('MutateHelper::replace_leaf_children')
    if f is None:
        return
    s_ = core.sym(f)
    rc = None
    for i in range(1, f.argc + 1):
        if f.local_name(i) == 'replaced_children':
            rc = i
    ctx.check(rc is not None, 'floor|%s|param' % f.path, 'replaced_children parameter exists', f, f.line)
    if rc is None:
        return
    stores = []
    for bi, b in enumerate(f.blocks):
        if b['c']:
            continue
        for si, st in enumerate(b['s']):
            if st[0] == 'a' and st[1][0] == rc and st[1][1]:
                stores.append((bi, si, st[3]))
    ctx.check(len(stores) >= 2, 'floor|%s|widenings' % f.path, 'the absorption arms widen replaced_children (found %d stores)' % len(stores), f, f.line)
    cl = [c for c in f.calls if c.matches('Clone::clone') and not f.blocks[c.bb]['c'] and c.t['a'] and (lambda t: t == ('arg', rc) or (t[0] == 'place' and t[1] == ('arg', rc) and all(p == '*' for p in t[2])))(s_.operand(c.t['a'][0]))]
    # the one whose result feeds the page collection (Iterator::map -> collect)
    feed = []
    for c in cl:
        for m_ in f.calls:
            if m_.matches('Iterator::map') and m_.t['a'] and s_.operand(m_.t['a'][0]) == ('call', c.bb):
                feed.append(c)
    ctx.check(len(feed) == 1, 'floor|%s|released-range' % f.path, 'one clone of replaced_children feeds the list of released leaf pages (found %d)' % len(feed), f, f.line)
    for c in feed:
        r = core.reach(f, start=(c.bb, len(f.blocks[c.bb]['s'])))
        late = [s3 for s3 in stores if core.point_reached(f, r, s3[0], s3[1])]
        ctx._ob(not late, ctx.sample('order', f, c.line, 'no widening of replaced_children after the released pages were listed'))
        if late:
            ctx.violate('order|%s|range-widened-after-listing' % f.path, 'replaced_children is widened (line %s) after the pages to release were read from it: the absorbed sibling is never released' % late[0][2], f, c.line)


def separator_cut_rules(ctx):
    """Shortened routing keys: an implementation of `Key::separator` that returns a prefix `right[..n]`
    compares n against both key lengths first; the n that is compared is the n that is cut."""
    ctx.set_rule('C10.R10', 'a shortened routing key is cut at exactly the length that was checked against both key lengths')
    n = 0
    for f in ctx.facts.fn_list:
        if not (f.path.endswith('::separator') and ' as ' in f.path and f.path.split(' as ')[1].startswith(('types::Key>', 'crate::types::Key>'))):
            continue
        s_ = core.sym(f)
        cuts = []
        for bi, b in enumerate(f.blocks):
            if b['c']:
                continue
            for si, st in enumerate(b['s']):
                if st[0] == 'a' and st[2]['k'] == 'agg' and str(st[2].get('a', '')).endswith('ops::RangeTo') and len(st[2]['o']) == 1:
                    cuts.append((s_.operand(st[2]['o'][0]), st[3]))
        if not cuts:
            continue
        lts = []
        for b in f.blocks:
            if b['c']:
                continue
            for st in b['s']:
                if st[0] == 'a' and st[2]['k'] == 'bin' and st[2]['op'] == 'Lt':
                    rhs = s_.operand(st[2]['o'][1])
                    # compared with a slice length (PtrMetadata shows as an unknown / place of an argument)
                    lts.append((s_.operand(st[2]['o'][0]), rhs, st[3]))
        n += 1
        for tx, line in cuts:
            same = [l for l in lts if l[0] == tx]
            ok_ = len(same) >= 2
            ctx._ob(ok_, ctx.sample('arg-flow', f, line, 'the cut length is the length compared with both key lengths'))
            if not ok_:
                ctx.violate('arg-flow|%s|cut-not-checked' % f.path, 'the prefix length used to cut the routing key (%s) is not the value compared against the two key lengths (%d matching comparisons): the cut may reach the end of the right key' % (s_.describe(tx), len(same)), f, line)
    ctx.check(n >= 2, 'floor|separator-impls', 'prefix-cutting Key::separator implementations analysed: %d' % n)


def survey_residue_rules(ctx):
    """Remaining state writes found by the deletion survey (second reading of the survivors)."""
    ctx.set_rule('C07.R10', 'an invalidated savepoint leaves both tracker sets')
    f = ctx.fn(TT + '::invalidate_savepoints')
    if f is not None:
        for callee, what in (('BTreeMap::remove', 'valid_savepoints'), ('BTreeSet::remove', 'persistent_savepoints')):
            p = ctx.sites(f, callee, exact=1)
            if p:
                ctx.each_iteration_passes(f, p, 'every invalidated id leaves %s' % what, 'kept-in-%s' % what)
    ctx.set_rule('C01.R12', 'recovery adopts the layout recalculated from the file length before choosing a slot')
    f = ctx.fn('UnrepairedDatabaseHeader::finalize')
    if f is not None:
        lf = ctx.sites(f, 'UnrepairedDatabaseHeader::layout_from_file_len', exact=2)
        sl = ctx.sites(f, 'DatabaseHeader::set_layout', exact=2)
        sp = ctx.sites(f, 'UnrepairedDatabaseHeader::select_primary_slot', exact=2)
        for p in lf:
            r = core.reach(f, start=(p.bb, len(f.blocks[p.bb]['s'])), cut_blocks={q.bb for q in sl} | core.error_blocks(f))
            bad = [q for q in sp if q.bb in r['term']] or [rb for rb in f.ret_blocks() if rb in r['term']]
            ctx._ob(not bad, ctx.sample('must-pass', f, p.line, 'a recalculated layout is installed before the slot is chosen'))
            if bad:
                ctx.violate('must-pass|%s|layout-not-installed' % f.path, 'a layout recalculated from the file length can be dropped: the slot is chosen (or the header returned) with the stale stored layout', f, p.line)
        for p in sl:
            ctx.flows(f, p, 1, from_call='UnrepairedDatabaseHeader::layout_from_file_len')
    f = ctx.fn('DatabaseHeader::to_bytes')
    if f is not None:
        s_ = core.sym(f)
        # the primary slot index reaches the serialised header
        hit = False
        for b in f.blocks:
            for st in b['s']:
                if st[0] == 'a' and st[1][1] and any(p.startswith('[') for p in st[1][1]):
                    for o in _rv_operands(st[2]):
                        if o[0] != 'k':
                            ls, calls, args, consts = core.flow_sources(f, o)
                            d = s_.describe(s_.operand(o))
                            if 'primary_slot' in d:
                                hit = True
                            for bb_ in calls:
                                cs = core.CallSite(f, bb_, f.blocks[bb_]['t'])
                                if cs.t['a'] and 'primary_slot' in s_.describe(s_.operand(cs.t['a'][0])):
                                    hit = True
        ctx.check(hit, 'arg-flow|%s|primary-index' % f.path, 'the primary slot index is written into the serialised header', f, f.line)
        e_magic = core.guard_edges(f, [Guard(place='include_magic_number', vals={'true'})])
        ctx.check(bool(e_magic), 'guard-missing|%s|magic' % f.path, 'to_bytes tests include_magic_number', f, f.line)
        cps = [cpoint(c) for c in f.calls if c.matches('copy_from_slice')]
        if e_magic and cps:
            r = core.reach(f, cut_edges=e_magic)
            own = [p for p in cps if p.bb not in r['term']]
            ctx.check(len(own) >= 1, 'guard|%s|magic-written' % f.path, 'the magic number is copied on the include_magic_number arm', f, f.line)
    ctx.set_rule('C06.R4b', '')
    for pat in ('TableTree::list_tables',):
        f = ctx.fn(pat)
        if f is None:
            continue
        vp = [cpoint(c) for c in f.calls_to('Vec::push')]
        ctx.check(len(vp) == 1, 'floor|%s|push' % f.path, 'list_tables collects names', f, f.line)
        if vp:
            ctx.each_iteration_passes(f, vp, 'every table name yielded by the catalog iterator is returned', 'table-name-dropped')
    ctx.set_rule('C06.R10', '')
    f = ctx.fn(WT + '::store_system_freed_pages')
    if f is not None:
        for cl in [c for c in f.closures if c.calls_to('PageListMut::push_back')]:
            pb = ctx.sites(cl, 'PageListMut::push_back', exact=1)
            # the closure reports that it stored something: a `true` is written through a captured reference after every push
            trues = []
            for bi, b in enumerate(cl.blocks):
                for si, st in enumerate(b['s']):
                    if st[0] == 'a' and st[1][1] and st[1][1][-1] == '*' and st[2]['k'] == 'use' and st[2]['o'][0] == 'k' and st[2]['o'][2] is True:
                        trues.append(Point(cl, bi, si, 'stored_pages = true', st[3]))
            ctx.check(len(trues) >= 1, 'floor|%s|stored-flag' % cl.path, 'the closure records that pages were stored', cl, cl.line)
            if pb and trues:
                r = core.reach(cl, start=(pb[0].bb, len(cl.blocks[pb[0].bb]['s'])), cut_points={(t.bb, t.idx) for t in trues}, cut_blocks=core.error_blocks(cl))
                nxt = [m for m in cl.calls if m.declared and m.declared.split('::')[-1] == 'next' and 'Iterator' in m.declared]
                bad = [m for m in nxt if m.bb in r['term']] or [rb for rb in cl.ret_blocks() if rb in r['term']]
                ctx._ob(not bad, ctx.sample('must-pass', cl, pb[0].line, 'push_back is followed by stored_pages = true'))
                if bad:
                    ctx.violate('must-pass|%s|stored-flag-skipped' % cl.path, 'a page can be written into a SYSTEM_FREED_TABLE record without the caller being told that records were stored (the commit is then not registered as having unprocessed freed pages)', cl, pb[0].line)
    ctx.set_rule('C05.R6', '')
    f = ctx.fn('TableTreeMut::clear_root_updates_and_close')
    if f is not None:
        call_rule(ctx, 'TableTreeMut::clear_root_updates_and_close', 'BTreeMap::clear', 'staged roots are dropped', exact=1, exits='any')
        call_rule(ctx, 'TableTreeMut::clear_root_updates_and_close', 'PageTracker::close', 'the allocation tracker is closed', exact=1, exits='any')


def leaf_width_rules(ctx):
    """A leaf page has no self-describing layout: whether keys / values are fixed width decides where the
    offset tables are.  Within one function, a leaf that is written (LeafPageMut / LeafMutator) is given
    the key and value widths of the same origin as the LeafAccessor that reads the same kind of page."""
    ctx.set_rule('C10.R11', 'a leaf page is written with the same key / value widths it is read with (reader / writer agreement)')

    def origin(f, s_, t, depth=0):
        if depth > 6:
            return '?'
        if t[0] == 'call':
            cs = core.CallSite(f, t[1], f.blocks[t[1]]['t'])
            ga = cs.t.get('ga') or []
            return '%s<%s>(%s)' % (core.strip_generics(cs.callee or '?'), ','.join(map(str, ga)), ','.join(origin(f, s_, s_.operand(a), depth + 1) for a in cs.t['a']))
        return s_.describe(t)
    n = 0
    for f in ctx.facts.fn_list:
        rd = [c for c in f.calls if c.matches('LeafAccessor::new') and not f.blocks[c.bb]['c']]
        wr = [c for c in f.calls if c.matches(('LeafPageMut::new', 'LeafMutator::new')) and not f.blocks[c.bb]['c']]
        if not rd or not wr:
            continue
        s_ = core.sym(f)
        n += 1
        rset = {(origin(f, s_, s_.operand(c.t['a'][-2])), origin(f, s_, s_.operand(c.t['a'][-1]))) for c in rd}
        for c in wr:
            w = (origin(f, s_, s_.operand(c.t['a'][-2])), origin(f, s_, s_.operand(c.t['a'][-1])))
            ok_ = w in rset
            ctx._ob(ok_, ctx.sample('agreement', f, c.line, 'writer widths %s match a reader in the same function' % (w,)))
            if not ok_:
                ctx.violate('agreement|%s|leaf-widths' % f.path, 'a leaf is written with widths %s while it is read with %s in the same function: the two disagree about the page layout' % (w, sorted(rset)), f, c.line)
    ctx.check(n >= 5, 'floor|leaf-reader-writer-fns', 'functions that both read and write leaves analysed: %d' % n)


def restore_commit_rules(ctx):
    ctx.set_rule('C07.R11', 'a committed restore discards the in-memory freed records of the commits it rolled back, whatever its durability')
    f = ctx.fn(WT + '::commit_inner_helper')
    if f is None:
        return
    dr = ctx.sites(f, TM + '::drop_unpersisted_data_freed_after', exact=1)
    cm = ctx.sites(f, [WT + '::durable_commit', WT + '::non_durable_commit'], exact=2)
    e_none = core.guard_edges(f, [Guard(place='self.restored_transaction', vals={'None'})])
    ctx.check(bool(e_none), 'guard-missing|%s|restored' % f.path, 'commit_inner_helper tests restored_transaction', f, f.line)
    if dr and cm and e_none:
        r = core.reach(f, cut_blocks={p.bb for p in dr} | core.error_blocks(f), cut_edges=e_none)
        bad = [p for p in cm if p.bb in r['term']]
        ctx._ob(not bad, ctx.sample('must-pass', f, dr[0].line, 'with a restore pending, both commit flavours are reached only through drop_unpersisted_data_freed_after'))
        if bad:
            ctx.violate('must-pass|%s|restore-keeps-freed-records|%s' % (f.path, bad[0].desc), 'a transaction that restored a savepoint can reach %s without discarding the in-memory freed records of the rolled-back commits: their pages are live again and would be freed by a later commit' % bad[0].desc, f, bad[0].line)
    for p in dr:
        ctx.flows(f, p, 1, from_arg='self', what='the horizon is the restored transaction id')


def untracked_allocation_rules(ctx):
    """`PageTracker::ignore()` takes an allocation or a release out of the per-transaction record that
    savepoint restore and abort rely on.  Only bookkeeping that is outside the data tree by construction may
    use it: the system tree, compaction targets, the post-commit release of already recorded pages, rollback."""
    ctx.set_rule('C05.R9', 'only the confirmed bookkeeping paths bypass the per-transaction allocation record (PageTracker::ignore)')
    ctx.callers_eq('PageTracker::ignore', {
        'SystemNamespace::new', 'SystemTable::new', WT + '::compact_pages', WT + '::durable_commit', WT + '::non_durable_commit',
        WT + '::process_data_freed_pages_after_commit', WT + '::process_freed_pages', WT + '::process_freed_pages_nondurable',
        WT + '::process_freed_pages_nondurable_helper', WT + '::restore_savepoint_inner', 'UntypedBtreeMut::relocate_helper',
        'multimap_btree::relocate_subtrees', PA + '::rollback_all'})
    # the data-tree mutators hand their own tracker to every allocation
    n = 0
    for pat in ('BtreeMut::get_mut', 'BtreeMut::get_mut_helper', 'AccessGuardMut::insert'):
        f = ctx.fn(pat)
        if f is None:
            continue
        s_ = core.sym(f)
        for c in f.calls_to(PA + '::allocate'):
            n += 1
            d = s_.describe(s_.operand(c.t['a'][2]))
            ok_ = 'allocated' in d
            ctx._ob(ok_, ctx.sample('arg-flow', f, c.line, 'copy-on-write allocation recorded in the transaction tracker (%s)' % d))
            if not ok_:
                ctx.violate('arg-flow|%s|untracked-allocation' % f.path, 'a copy-on-write allocation in the data tree is not recorded in the transaction\'s allocation tracker (tracker argument: %s)' % d, f, c.line)
    ctx.check(n >= 2, 'floor|cow-allocations', 'copy-on-write allocations of get_mut analysed: %d' % n)


def relocate_tree_rules(ctx):
    ctx.set_rule('C13.R6', 'whether a table moved is decided by comparing its root after relocation with the root read before any relocation step')
    f = ctx.fn('InternalTableDefinition::relocate_tree')
    if f is None:
        return
    pg = ctx.sites(f, 'InternalTableDefinition::private_get_root', exact=1)
    rs = ctx.sites(f, 'multimap_btree::relocate_subtrees', exact=1)
    rl = ctx.sites(f, 'UntypedBtreeMut::relocate', exact=1)
    sh = ctx.sites(f, 'InternalTableDefinition::set_header', exact=1)
    ctx.order(f, pg, rs, 'the original root is read before the multimap subtrees (and with them the top-level root) are relocated')
    ctx.order(f, pg, rl, 'the original root is read before the tree is relocated')
    ctx.guarded_cmp(f, sh, [Guard(call='InternalTableDefinition::private_get_root', cmp=True)], 'the new header is adopted on a comparison with the original root')
    ctx.must_pass(f, rl, exits='success', what='every table is run through UntypedBtreeMut::relocate')
    for p in sh:
        ctx.flows(f, p, 1, from_call='UntypedBtreeMut::get_root', what='the adopted root is the relocated tree\'s root')
        ctx.flows(f, p, 2, from_call='InternalTableDefinition::get_length', what='the adopted length is the definition\'s own')
    for p in rl:
        pass
    # the tree that is relocated starts from the root the multimap step produced
    nw = ctx.sites(f, 'UntypedBtreeMut::new', exact=1)
    for p in nw:
        ctx.flows(f, p, 0, from_call='multimap_btree::relocate_subtrees', what='for a multimap table the tree is rebuilt from the root relocate_subtrees returned')


def after_bound_rules(ctx):
    """`..._after(t)` means strictly after t: the record of t itself belongs to the state that is kept."""
    ctx.set_rule('C06.R6', '')
    f = ctx.fn('UnpersistedState::allocations_after')
    if f is not None:
        rg = ctx.sites(f, 'BTreeMap::range', exact=1)
        for p in rg:
            ctx.flows(f, p, 1, from_call='TransactionId::next', what='allocations "after t" start at t.next(): t\'s own pages belong to the state being restored')
        # the range value is built from next() directly: RangeFrom { start: next() }
        s_ = core.sym(f)
        ok_ = False
        for b in f.blocks:
            for st in b['s']:
                if st[0] == 'a' and st[2]['k'] == 'agg' and str(st[2].get('a', '')).endswith('ops::RangeFrom'):
                    t = s_.operand(st[2]['o'][0])
                    if t[0] == 'call' and core.CallSite(f, t[1], f.blocks[t[1]]['t']).matches('TransactionId::next'):
                        ok_ = True
        ctx.check(ok_, 'arg-flow|%s|range-from-next' % f.path, 'the scan of unpersisted allocations starts at transaction_id.next()', f, f.line)
    f = ctx.fn('UnpersistedState::drop_data_freed_after')
    if f is not None:
        so = ctx.sites(f, 'BTreeMap::split_off', exact=1)
        for p in so:
            ctx.flows(f, p, 1, from_call='TransactionId::next', what='freed records "after t" are split off at t.next()')


def create_only_when_empty_rules(ctx):
    ctx.set_rule('C12.R7', 'a storage is initialised as a new database only when it is empty (length 0): existing bytes are never overwritten by a creating open')
    f = ctx.fn(TM + '::new')
    if f is None:
        return
    s_ = core.sym(f)
    init = ctx.sites(f, 'DatabaseHeader::new', exact=1)
    empty_edges = set()
    tests = 0
    for bb in range(f.nb):
        t = f.blocks[bb]['t']
        if t['k'] != 'sw' or f.blocks[bb]['c']:
            continue
        term = s_.operand(t['o'])
        if term[0] == 'cmp' and term[1] in ('Gt', 'Ne', 'Eq') and term[3][0] == 'const' and str(term[3][2]) == '0':
            lhs = term[2]
            d = s_.describe(lhs)
            base = lhs[1] if lhs[0] == 'place' else lhs
            from_len = False
            if base[0] == 'call':
                cs0 = core.CallSite(f, base[1], f.blocks[base[1]]['t'])
                from_len = cs0.matches(PCF + '::raw_file_len') or (cs0.t['a'] and core.flows_from_call(f, cs0.t['a'][0], PCF + '::raw_file_len'))
            if from_len or 'raw_file_len' in d or 'initial_storage_len' in d:
                tests += 1
                for si, (tgt, lab) in enumerate(f.succ(bb)):
                    is_zero_label = (lab == '0')
                    # Gt / Ne are false (label 0) when the length is 0; Eq is true (otherwise) when it is 0
                    if (term[1] in ('Gt', 'Ne') and is_zero_label) or (term[1] == 'Eq' and not is_zero_label):
                        empty_edges.add((bb, si))
    ctx.check(tests >= 1 and bool(empty_edges), 'guard-missing|%s|len-zero' % f.path, 'TransactionalMemory::new tests the storage length against 0', f, f.line)
    # the two comparisons of the magic number read from the file: C1 on the non-empty arm (mismatch = error), C2 decides initialisation
    cmpc = []
    for c in f.calls:
        if f.blocks[c.bb]['c'] or not c.matches(('PartialEq::ne', 'PartialEq::eq')) or len(c.t['a']) != 2:
            continue
        ds = [s_.describe(s_.operand(a)) for a in c.t['a']]
        if any('magic_number' in d for d in ds):
            cmpc.append(c)
    cmpc.sort(key=lambda c: c.line)
    ctx.check(len(cmpc) >= 2, 'floor|%s|magic-compares' % f.path, 'the magic number read from the storage is compared on the open path and before initialisation (found %d comparisons)' % len(cmpc), f, f.line)
    if len(cmpc) >= 2 and init and empty_edges:
        c2 = cmpc[-1]
        c1 = cmpc[0]

        def edges_of(c, want_equal):
            """edges on which the comparison call c came out equal / different (read off the switch on its result)"""
            out = set()
            ne = c.matches('PartialEq::ne')
            for bb in range(f.nb):
                t = f.blocks[bb]['t']
                if t['k'] != 'sw':
                    continue
                term = s_.operand(t['o'])
                neg = False
                while term[0] == 'not':
                    term = term[1]
                    neg = not neg
                if term != ('call', c.bb):
                    continue
                for si, (tgt, lab) in enumerate(f.succ(bb)):
                    result_true = (lab != '0') != neg
                    equal = (not result_true) if ne else result_true
                    if equal == want_equal:
                        out.add((bb, si))
            return out
        # initialisation hangs on C2 saying "differs"
        d2 = edges_of(c2, False)
        r = core.reach(f, cut_edges=d2)
        ok2 = bool(d2) and not any(p.bb in r['term'] for p in init)
        ctx._ob(ok2, ctx.sample('guard', f, c2.line, 'a fresh header is built only when the stored magic number differs'))
        if not ok2:
            ctx.violate('guard|%s|init-without-magic-test' % f.path, 'DatabaseHeader::new is reachable without the stored magic number having been found different', f, c2.line)
        # on the non-empty arm the only way on is through an earlier comparison saying "equal"
        nonempty_targets = []
        for (bb0, _si0) in empty_edges:
            for si, (tgt, lab) in enumerate(f.succ(bb0)):
                if (bb0, si) not in empty_edges:
                    nonempty_targets.append(tgt)
        eq_edges = set()
        for c in cmpc[:-1]:
            eq_edges |= edges_of(c, True)
        bad = False
        for tgt in nonempty_targets:
            r = core.reach(f, start=(tgt, 0), cut_edges=eq_edges, cut_blocks=core.error_blocks(f))
            if c2.bb in r['term'] or any(p.bb in r['term'] for p in init):
                bad = True
        ctx._ob(not bad and bool(eq_edges), ctx.sample('guard', f, c1.line, 'a non-empty storage gets past the open check only with the right magic number'))
        if bad or not eq_edges:
            ctx.violate('guard|%s|init-nonempty' % f.path, 'a storage that is not empty can reach the initialisation decision without its magic number having matched: an existing file could be re-initialised by a creating open', f, c1.line)


def durability_guard_rules(ctx):
    ctx.set_rule('C07.R12', 'a transaction that created or deleted a persistent savepoint cannot be made non-durable: the guard looks at both lists')
    f = ctx.fn('SavepointTransactionState::has_created_or_deleted')
    if f is not None:
        s_ = core.sym(f)
        seen = set()
        for c in f.calls:
            if (c.declared or c.callee or '').split('::')[-1] == 'is_empty' and c.t['a']:
                d = s_.describe(s_.operand(c.t['a'][0]))
                for fld in ('created_persistent', 'deleted_persistent'):
                    if d.endswith(fld):
                        seen.add(fld)
        ok_ = seen == {'created_persistent', 'deleted_persistent'}
        ctx._ob(ok_, ctx.sample('shape', f, f.line, 'both created_persistent and deleted_persistent are consulted'))
        if not ok_:
            ctx.violate('shape|%s|both-lists' % f.path, 'has_created_or_deleted consults only %s: a transaction that deleted (or created) a persistent savepoint could be committed non-durably, leaving the durable state listing a savepoint whose pages are released' % sorted(seen), f, f.line)
    f = ctx.fn(WT + '::set_durability')
    if f is not None:
        hc = ctx.sites(f, 'SavepointTransactionState::has_created_or_deleted', exact=1)
        st = [p for p, _ in _field_store_points(f, 'durability')]
        ctx.check(len(st) >= 1, 'floor|%s|store' % f.path, 'set_durability stores the durability', f, f.line)
        if hc and st:
            ctx.order(f, hc, st, 'the savepoint guard is evaluated before the durability is changed')
            ctx.held(f, hc, 'self.savepoint_state')


def relocation_content_rules(ctx):
    """Compaction moves pages, it never changes them: a relocated page starts as a byte copy of the page it
    replaces, every relocated child / subtree pointer is written into the copy, and the multimap page walk
    hands every page of the outer tree to the visitor."""
    ctx.set_rule('C13.R7', 'a relocated page is a copy of the old one with the relocated child / subtree pointers written in')
    n = 0
    for pat, rec, is_multi in (('UntypedBtreeMut::relocate_helper', 'UntypedBtreeMut::relocate_helper', False), ('multimap_btree::relocate_subtrees', 'multimap_btree::relocate_subtrees', True)):
        f = ctx.fn(pat)
        if f is None:
            continue
        n += 1
        s_ = core.sym(f)
        cp = ctx.sites(f, 'copy_from_slice', exact=1)
        for p in cp:
            ctx.flows(f, p, 1, from_call=PA + '::get_page', what='the copy source is the old page')
        # every mutation of the new page happens after the copy
        muts = [cpoint(c) for c in f.calls if c.matches(('BranchMutator::write_child_page', 'LeafPageMut::replace_value'))]
        ctx.check(len(muts) >= 1, 'floor|%s|pointer-writes' % f.path, 'the relocated child / subtree pointers are written', f, f.line)
        ctx.order(f, cp, muts, 'the old bytes are copied before pointers are rewritten in the copy')
        rcs = [c for c in f.calls if c.matches(rec) and not f.blocks[c.bb]['c']]
        wc = [cpoint(c) for c in f.calls if c.matches('BranchMutator::write_child_page')]
        ctx.check(len(rcs) == 1 and len(wc) == 1, 'floor|%s|recursion' % f.path, 'one recursion over the children and one pointer write', f, f.line)
        if rcs and wc:
            # after a child was relocated, its new (page, checksum) is written before the loop advances
            e_none = set()
            for bb in range(f.nb):
                if f.blocks[bb]['t']['k'] != 'sw':
                    continue
                for si, fs in enumerate(core.edge_facts(f, bb)):
                    if any(x.kind == 'call' and x.call is not None and x.call.bb == rcs[0].bb and x.vals and x.vals <= frozenset({'None', 'Err'}) for x in fs):
                        e_none.add((bb, si))
            nxt = [m for m in f.calls if m.declared and m.declared.split('::')[-1] == 'next' and 'Iterator' in m.declared]
            r = core.reach(f, start=(rcs[0].bb, len(f.blocks[rcs[0].bb]['s'])), cut_blocks={p.bb for p in wc} | core.error_blocks(f), cut_edges=e_none)
            bad = [m for m in nxt if m.bb in r['term']] or [rb for rb in f.ret_blocks() if rb in r['term']]
            ctx._ob(not bad, ctx.sample('must-pass', f, rcs[0].line, 'a relocated child is written into the new branch page'))
            if bad:
                ctx.violate('must-pass|%s|child-pointer-not-written' % f.path, 'a child that was relocated can be left out of the new branch page (write_child_page skipped)', f, rcs[0].line)
            for p in wc:
                ctx.flows(f, p, 2, from_call=rec, what='the pointer written is the relocated child')
                ctx.flows(f, p, 3, from_call=rec, what='the checksum written is the relocated child\'s')
        if is_multi:
            tr = ctx.sites(f, 'UntypedBtreeMut::relocate', exact=1)
            rv = ctx.sites(f, 'LeafPageMut::replace_value', exact=1)
            mk = ctx.sites(f, 'UntypedDynamicCollection::make_subtree_data', exact=1)
            ctx.guarded(f, tr, [Guard(call='UntypedDynamicCollection::collection_type', vals={'SubtreeV2'})], 'subtrees are the SubtreeV2 collections')
            for p in rv:
                ctx.flows(f, p, 2, from_call='UntypedDynamicCollection::make_subtree_data', what='the value written back names the relocated subtree root')
            for p in mk:
                ctx.flows(f, p, 0, from_call='UntypedBtreeMut::get_root', what='the new subtree header is the relocated tree\'s root')
            ctx.guarded_cmp(f, rv, [Guard(call='UntypedBtreeMut::get_root', cmp=True)], 'the leaf is rewritten when the subtree root changed')
    ctx.check(n >= 2, 'floor|relocators', 'page relocators analysed: %d' % n)
    f = ctx.fn('UntypedBtreeMut::relocate')
    if f is not None:
        store_rule(ctx, 'UntypedBtreeMut::relocate', 'root', ('call', 'UntypedBtreeMut::relocate_helper'), 'the relocated root replaces the tree\'s root', must=False)
    ctx.set_rule('C06.R4b', '')
    f = ctx.fn('UntypedMultiBtree::visit_all_pages')
    if f is not None:
        for cl in [c for c in f.closures if c.calls_to('multimap_btree::parse_subtree_roots')]:
            vc = [cpoint(c, 'visitor call') for c in cl.calls if c.declared and c.declared.split('::')[-1] in ('call_mut', 'call_once', 'call') and c.resolved is None]
            ctx.check(len(vc) == 1, 'floor|%s|visitor' % cl.path, 'the per-page closure of the multimap walk applies the visitor to the outer page', cl, cl.line)
            ctx.must_pass(cl, vc, exits='success', what='every page of the outer multimap tree reaches the visitor')


def _switch_edges_on_call(f, call_bb, want_true):
    """edges of the switch on the bool returned by the call ending block call_bb on which it is true / false"""
    s_ = core.sym(f)
    out = set()
    for bb in range(f.nb):
        t = f.blocks[bb]['t']
        if t['k'] != 'sw':
            continue
        term = s_.operand(t['o'])
        neg = False
        while term[0] == 'not':
            term = term[1]
            neg = not neg
        if term != ('call', call_bb):
            continue
        for si, (tgt, lab) in enumerate(f.succ(bb)):
            if ((lab != '0') != neg) == want_true:
                out.add((bb, si))
    return out



def extract_state_rules(ctx):
    """The draining iterator's latch protocol (C05: a half-applied extraction can never be committed)."""
    ctx.set_rule('C05.R10', 'extract_if latches: a failed finalisation is remembered, an iteration error closes and latches, exhaustion closes')
    BE = 'BtreeExtractIf'
    f = ctx.fn(BE + '::close')
    if f is not None:
        rc = ctx.sites(f, 'RangeMut::close', exact=1)
        cf = [p for p, st in _field_store_points(f, 'close_failed') if st[2]['k'] == 'use' and st[2]['o'][0] == 'k' and st[2]['o'][2] is True]
        ctx.check(len(cf) == 1, 'floor|%s|close_failed' % f.path, 'close() records a failed finalisation', f, f.line)
        if rc and cf:
            e_ok = core.guard_edges(f, [Guard(place='result', vals={'Ok'}), ok('RangeMut::close')])
            e_clean = core.guard_edges(f, [false_of('RangeMut::poisoned')])
            # a failed close (Err) always sets the flag; so does a poisoned range
            r = core.reach(f, start=(rc[0].bb, len(f.blocks[rc[0].bb]['s'])), cut_points={(p.bb, p.idx) for p in cf}, cut_edges=e_ok)
            bad = [rb for rb in f.ret_blocks() if rb in r['term']]
            ctx._ob(not bad, ctx.sample('must-pass', f, rc[0].line, 'an Err from RangeMut::close sets close_failed'))
            if bad:
                ctx.violate('must-pass|%s|close-failure-forgotten' % f.path, 'close() can return after RangeMut::close failed without recording close_failed (the transaction would not be poisoned)', f, rc[0].line)
        st = [p for p, _ in _field_store_points(f, 'state')]
        ctx.check(len(st) >= 1, 'floor|%s|state' % f.path, 'close() leaves the Running state', f, f.line)
        if rc and st:
            ctx.order(f, st, rc, 'the state leaves Running before the range is finalised (no second finalisation)')
    f = ctx.fn(BE + '::latch_error')
    if f is not None:
        cl = ctx.sites(f, BE + '::close', exact=1)
        st = [p for p, _ in _field_store_points(f, 'state')]
        ctx.check(len(st) == 1, 'floor|%s|state' % f.path, 'latch_error sets the Errored state', f, f.line)
        ctx.must_pass(f, cl, exits='any', what='an iteration error finalises both ends')
        ctx.must_pass(f, st, exits='any', what='an iteration error is latched')
    f = ctx.fn(BE + '::advance')
    if f is not None:
        le = ctx.sites(f, BE + '::latch_error', exact=1)
        ie = [c for c in f.calls if c.matches('Result::is_err') and not f.blocks[c.bb]['c']]
        ctx.check(len(ie) == 1, 'floor|%s|is_err' % f.path, 'advance() tests the step result', f, f.line)
        if ie and le:
            e_err = _switch_edges_on_call(f, ie[0].bb, True)
            e_ok = _switch_edges_on_call(f, ie[0].bb, False)
            r = core.reach(f, cut_edges=e_err)
            ctx.check(bool(e_err) and le[0].bb not in r['term'], 'guard|%s|latch-on-err' % f.path, 'latch_error is reached only on the Err edge of the step result', f, le[0].line)
            r = core.reach(f, start=(ie[0].bb, len(f.blocks[ie[0].bb]['s'])), cut_edges=e_ok, cut_blocks={p.bb for p in le})
            bad = [rb for rb in f.ret_blocks() if rb in r['term']]
            ctx._ob(not bad, ctx.sample('must-pass', f, ie[0].line, 'an error from the step function is always latched'))
            if bad:
                ctx.violate('must-pass|%s|error-not-latched' % f.path, 'advance() can return an error of the step function without latching it', f, ie[0].line)
    for pat, step in ((BE + '::next_inner', 'RangeMut::next'), (BE + '::next_back_inner', 'RangeMut::prev')):
        f = ctx.fn(pat)
        if f is None:
            continue
        cl = ctx.sites(f, BE + '::close', exact=1)
        # exhaustion (peek returned None) leads to close() before Ok(None)
        ctx.must_pass(f, cl + [cpoint(c) for c in f.calls if c.matches(('RangeMut::remove_next', 'RangeMut::remove_prev'))], exits='success', what='an exhausted scan is closed before it reports the end')
        stp = ctx.sites(f, step, exact=1)
        ctx.guarded(f, stp, [Guard(place='matched', vals={'false'})], 'the cursor steps over an entry only when the predicate rejected it')


def tree_root_update_rules(ctx):
    ctx.set_rule('C10.R8', '')
    for pat in ('MutateHelper::insert', 'MutateHelper::finish_deletion'):
        f = ctx.fn(pat)
        if f is None:
            continue
        s_ = core.sym(f)
        pts = []
        for bi, b in enumerate(f.blocks):
            if b['c']:
                continue
            for si, st in enumerate(b['s']):
                if st[0] == 'a' and st[1][1] == ['*']:
                    t = s_.local(st[1][0])
                    if t[0] == 'place' and t[2] and t[2][-1] == '.root':
                        pts.append(Point(f, bi, si, 'store *self.root', st[3]))
        ctx.check(len(pts) >= 1, 'floor|%s|root-store' % f.path, '%s writes the tree root through self.root' % pat, f, f.line)
        if pts:
            ctx.must_pass(f, pts, exits='success', what='the new root is stored on every success path of %s' % pat)


def survey2_rules(ctx):
    """State writes found by the second deletion survey (allocator, tracker, snapshot loading)."""
    BA = 'BuddyAllocator'
    ctx.set_rule('C14.R4', '')
    f = ctx.fn(BA + '::free_inner')
    if f is not None:
        clr = ctx.sites(f, 'BtreeBitmap::clear', exact=2)
        st = ctx.sites(f, 'BtreeBitmap::set', exact=1)
        rec = ctx.sites(f, BA + '::free_inner', exact=1)
        ctx.must_pass(f, clr + st, exits='any', what='a freed block is marked free at its order, or its buddy is taken out of the lower order for the merge')
        ctx.order(f, st, rec, 'the buddy leaves the lower order before the merged block is freed one order up')
    f = ctx.fn(BA + '::resize')
    if f is not None:
        store_rule(ctx, BA + '::resize', 'len', ('arg', 'new_size'), 'the allocator adopts its new size', exits='any')
        ctx.sites(f, BA + '::free_inner', exact=2)
    ctx.set_rule('C06.R5b', '')
    for pat, inner in (('PageTracker::insert', 'PageTrackerPolicy::insert'), ('PageTracker::remove', 'PageTrackerPolicy::remove')):
        f = ctx.fn(pat)
        if f is None:
            continue
        p = ctx.sites(f, inner, exact=1)
        e_off = core.guard_edges(f, [false_of('PageTracker::tracking')])
        ctx.must_pass(f, p, exits='any', extra_cut_edges=e_off, what='while tracking is on, every allocation / release reaches the policy')
        for q in p:
            ctx.flows(f, q, 1, from_arg='page')
    for pat, callee in (('PageTrackerPolicy::insert', 'HashSet::insert'), ('PageTrackerPolicy::remove', 'HashSet::remove')):
        f = ctx.fn(pat)
        if f is None:
            continue
        p = ctx.sites(f, [callee, callee.replace('HashSet', 'BTreeSet')], exact=1)
        ctx.guarded(f, p, [Guard(place='self', vals={'Track'})], 'the set is touched in the Track state')
        e_other = core.guard_edges(f, [Guard(place='self', vals={'Ignore'}), Guard(place='self', vals={'Closed'})])
        ctx.must_pass(f, p, exits='any', extra_cut_edges=e_other, what='in the Track state the page is recorded')
    ctx.set_rule('C11.R7', '')
    f = ctx.fn(TM + '::load_allocator_state')
    if f is not None:
        pu = [cpoint(c) for c in f.calls_to('Vec::push')]
        # the same collection written as `tree.range(..)?.map(|r| .. from_bytes ..).collect()`
        co = [cpoint(c) for c in f.calls if c.matches('Iterator::collect') and not f.blocks[c.bb]['c'] and c.t['a'] and c.t['a'][0][0] != 'k'
              and core.flows_from_call(f, c.t['a'][0], 'Btree::range')] if not pu else []
        ctx.check(len(pu) + len(co) == 1, 'floor|%s|push' % f.path, 'load_allocator_state collects the region allocators', f, f.line)
        if pu:
            ctx.each_iteration_passes(f, pu, 'every stored region allocator is loaded', 'region-not-loaded')
            for p in pu:
                ctx.flows(f, p, 1, from_call=BA + '::from_bytes')
        if co:
            ctx.must_pass(f, co, exits='success', what='the stored region allocators are collected')
            ctx.check(len(f.family_calls_to(BA + '::from_bytes')) >= 1, 'floor|%s|from_bytes' % f.path, 'each collected element is decoded with BuddyAllocator::from_bytes', f, f.line)
        iv = ctx.sites(f, TM + '::is_valid_allocator_state', exact=1)
        rz = ctx.sites(f, 'Allocators::resize_to', exact=1)
        ctx.must_pass(f, rz, exits='success', what='loaded allocators are resized to the current layout')
        st = [p for p, s3 in _field_store_points(f, 'recovery_required') if s3[2]['k'] == 'use' and s3[2]['o'][0] == 'k' and s3[2]['o'][2] is False]
        ctx.check(len(st) == 1, 'floor|%s|recovery-cleared' % f.path, 'a loaded snapshot clears recovery_required in memory', f, f.line)
        if st and rz:
            ctx.order(f, rz, st, 'recovery_required is cleared only after the allocators are in place')


def flush_take_rules(ctx):
    ctx.set_rule('C08.R9', 'a buffered page leaves its write-buffer slot only when no write of that stripe can fail any more')
    f = ctx.fn(PCF + '::flush_write_buffer')
    if f is None:
        return
    tk = ctx.sites(f, 'Option::take', exact=1)
    wr = ctx.sites(f, CB + '::write', exact=1)
    cl = ctx.sites(f, 'LRUWriteCache::clear', exact=1)
    for p in tk:
        r = core.reach(f, start=(p.bb, len(f.blocks[p.bb]['s'])), cut_blocks={q.bb for q in cl})
        bad = [q for q in wr if q.bb in r['term']]
        ctx._ob(not bad, ctx.sample('order', f, p.line, 'no fallible write after a page was taken out of the stripe'))
        if bad:
            ctx.violate('order|%s|take-before-write' % f.path, 'a page is taken out of its write-buffer slot while a write of the same stripe can still fail: on failure the page (or an emptied slot) is left behind', f, p.line)


def oldest_search_rules(ctx):
    """The tracker's `oldest_*` queries walk an ordered map from the front and return the first entry that
    qualifies; a search from the back, or a predicate applied to the first entry only, answers a different
    question."""
    ctx.set_rule('C02.R11', 'oldest_* tracker queries search from the front and test every entry (no rfind / next_back / Option::filter)')
    n = 0
    BAD_BACK = ('rfind', 'next_back', 'last', 'max', 'max_by', 'max_by_key', 'rev', 'rposition', 'pop_last', 'last_key_value')
    for f in ctx.facts.fn_list:
        last = f.path.split('::')[-1]
        if f.kind == 'closure' or not (f.path.startswith('transaction_tracker::TransactionTracker::') and last.startswith('oldest_')):
            continue
        n += 1
        fam = f.family() if hasattr(f, 'family') else [f]
        bad = []
        for g in fam:
            for c in g.calls:
                nm = (c.declared or c.callee or '').split('::')[-1]
                if nm in BAD_BACK and not g.blocks[c.bb]['c']:
                    bad.append((g, c, nm))
                if nm == 'filter' and 'Option' in (c.declared or c.callee or '') and not g.blocks[c.bb]['c']:
                    bad.append((g, c, 'Option::filter'))
        ctx._ob(not bad, ctx.sample('shape', f, f.line, '%s searches from the front over all entries' % last))
        for g, c, nm in bad:
            ctx.violate('shape|%s|%s' % (f.path, nm), '`%s` uses %s: the oldest qualifying entry is the first match of a front-to-back search over every entry' % (last, nm), g, c.line)
        ctx.held(f, [cpoint(c) for c in f.calls if (c.declared or c.callee or '').split('::')[-1] in ('keys', 'iter', 'first_key_value', 'range')][:1], TTSTATE)
    ctx.check(n >= 3, 'floor|oldest-queries', 'oldest_* tracker queries analysed: %d' % n)


def snapshot_atomic_rules(ctx):
    """A reader is registered under the id of the latest commit and then reads a data root.  The id decides
    which freed records may be processed while the reader lives; the root decides which pages it touches.
    If the two are read in separate critical sections, a commit landing in between leaves the reader
    registered under the previous id while it reads the new root -- and the non-durable free horizon, which
    only counts readers registered on pending non-durable commits, then releases pages it is using."""
    ctx.set_rule('C02.R12', 'the id a reader is registered under and the data root it reads are taken in one critical section')
    f = ctx.fn(TT + '::register_read_transaction')
    g = ctx.fn('ReadTransaction::new')
    h = None
    if f is not None:
        tmc = [c for c in f.calls if (c.callee or '').startswith('tree_store::page_store::page_manager::TransactionalMemory::') and not f.blocks[c.bb]['c']]
        gives_root = 'BtreeHeader' in (f.d.get('ret') or '')
        ok_ = len(tmc) == 1 and gives_root
        ctx._ob(ok_, ctx.sample('shape', f, f.line, 'the reader\'s id and root come from one call into TransactionalMemory and are returned together'))
        if not ok_:
            ctx.violate('atomic|%s|id-without-root' % f.path, 'register_read_transaction does not return the data root together with the id it registers (TransactionalMemory calls: %d, returns a root: %s): the root is then read in a separate critical section, so a commit can land between the two' % (len(tmc), gives_root), f, f.line)
        ctx.held(f, [cpoint(c) for c in tmc][:1], TTSTATE)
        if len(tmc) == 1:
            h = ctx.facts.fns.get(tmc[0].resolved or tmc[0].callee)
    if g is not None:
        own = [c for c in g.calls if c.matches((TM + '::get_data_root', TM + '::get_system_root', TM + '::get_last_committed_transaction_id'))]
        ctx._ob(not own, ctx.sample('shape', g, g.line, 'ReadTransaction::new is handed the root that belongs to its guard'))
        if own:
            ctx.violate('atomic|%s|reads-root-itself' % g.path, 'ReadTransaction::new reads the data root itself, after (and not atomically with) the registration of the reader under a transaction id', g, own[0].line)
    if h is not None:
        ctx.sites(h, 'Mutex::lock', exact=1)
        ctx.held(h, ctx.sites(h, 'InMemoryState::latest_slot', floor=1), 'self.state')
    # every creator of a ReadTransaction passes on the root it got from the registration
    for path, sites in sorted(ctx.facts.callers_of('ReadTransaction::new', root=False).items()):
        for c in sites:
            if len(c.t['a']) >= 3:
                ok_ = core.flows_from_call(c.fn, c.t['a'][2], TT + '::register_read_transaction') or core.flows_from_call(c.fn, c.t['a'][2], 'TransactionGuard::allocate_read')
                ctx._ob(bool(ok_), ctx.sample('arg-flow', c.fn, c.line, 'the root handed to ReadTransaction::new comes from the registration'))
                if not ok_:
                    ctx.violate('arg-flow|%s|root-not-from-registration' % c.fn.path, 'the root passed to ReadTransaction::new does not come from the registration of the reader', c.fn, c.line)


def open_reads_within_length_rules(ctx):
    """Opening a storage reads the magic number and then the header straight from offset 0.  Each of those
    reads is preceded, on every path, by a comparison of the storage length with at least the number of
    bytes read -- or by the initialisation branch, which sizes the storage itself."""
    ctx.set_rule('C20.R7', 'the direct reads of an open (magic number, header) stay within the storage length that was checked')
    f = ctx.fn(TM + '::new')
    if f is None:
        return
    s_ = core.sym(f)
    rds = [c for c in f.calls if c.matches(PCF + '::read_direct') and not f.blocks[c.bb]['c']]
    ctx.check(len(rds) >= 2, 'floor|%s|read_direct' % f.path, 'TransactionalMemory::new reads the magic number and the header directly (found %d reads)' % len(rds), f, f.line)
    resize_bbs = {c.bb for c in f.calls if c.matches(PCF + '::resize')}

    def const_int(t):
        if t[0] == 'const':
            try:
                return int(t[2])
            except (TypeError, ValueError):
                return None
        if t[0] == 'call':
            cs = core.CallSite(f, t[1], f.blocks[t[1]]['t'])
            # MAGICNUMBER.len(): the length of a constant array
            if (cs.callee or '').endswith('::len') and cs.t['a']:
                a0 = s_.operand(cs.t['a'][0])
                if a0[0] == 'place':
                    a0 = a0[1]
                if a0[0] == 'const':
                    m_ = re.search(r'\[[^;\]]+;\s*(\d+)\]', str(a0[1]))
                    if m_:
                        return int(m_.group(1))
            return None
        return None

    def is_len(t, depth=0):
        if depth > 4:
            return False
        if t[0] == 'place':
            return is_len(t[1], depth + 1)
        if t[0] == 'call':
            cs = core.CallSite(f, t[1], f.blocks[t[1]]['t'])
            if cs.matches(PCF + '::raw_file_len'):
                return True
            return bool(cs.t['a']) and core.flows_from_call(f, cs.t['a'][0], PCF + '::raw_file_len')
        return False
    # edges on which "length >= K" is known, per K
    known = []
    for bb in range(f.nb):
        t = f.blocks[bb]['t']
        if t['k'] != 'sw' or f.blocks[bb]['c']:
            continue
        term = s_.operand(t['o'])
        neg = False
        while term[0] == 'not':
            term = term[1]
            neg = not neg
        if term[0] != 'cmp' or term[1] not in ('Lt', 'Ge', 'Gt', 'Le'):
            continue
        a, b = term[2], term[3]
        if is_len(a) and const_int(b) is not None:
            k, op = const_int(b), term[1]
        elif is_len(b) and const_int(a) is not None:
            k, op = const_int(a), {'Lt': 'Gt', 'Gt': 'Lt', 'Le': 'Ge', 'Ge': 'Le'}[term[1]]
        else:
            continue
        for si, (tgt, lab) in enumerate(f.succ(bb)):
            res = (lab != '0') != neg
            # len >= K holds on: Ge true, Lt false; len > K (>= K+1) on Gt true, Le false
            if (op == 'Ge' and res) or (op == 'Lt' and not res):
                known.append(((bb, si), k))
            elif (op == 'Gt' and res) or (op == 'Le' and not res):
                known.append(((bb, si), k + 1))
    for c in rds:
        ln = const_int(s_.operand(c.t['a'][2])) if len(c.t['a']) > 2 else None
        off = const_int(s_.operand(c.t['a'][1])) if len(c.t['a']) > 1 else None
        ctx.check(ln is not None and off == 0, 'const|%s|read_direct-args|%s' % (f.path, c.line), 'read_direct is called with constant offset 0 and a constant length', f, c.line)
        if ln is None:
            continue
        good = {e for (e, k) in known if k >= ln}
        # an empty storage (length 0) is initialised before anything is read back: its magic number reads
        # as zeros, which forces the initialisation branch (C12.R7 checks that branch's guard); that
        # value correlation is beyond a path-insensitive reachability, so the length-0 edges are cut too
        empty = set()
        for bb in range(f.nb):
            t = f.blocks[bb]['t']
            if t['k'] != 'sw' or f.blocks[bb]['c']:
                continue
            term = s_.operand(t['o'])
            if term[0] == 'cmp' and term[1] in ('Gt', 'Ne', 'Eq') and is_len(term[2]) and const_int(term[3]) == 0:
                for si, (tgt, lab) in enumerate(f.succ(bb)):
                    if (term[1] in ('Gt', 'Ne') and lab == '0') or (term[1] == 'Eq' and lab != '0'):
                        empty.add((bb, si))
        r = core.reach(f, cut_edges=good | empty, cut_blocks=resize_bbs)
        bad = c.bb in r['term']
        ctx._ob(not bad, ctx.sample('guard', f, c.line, 'read of %d bytes at offset 0 only after the length was found >= %d (or the storage was initialised)' % (ln, ln)))
        if bad:
            ctx.violate('guard|%s|read-past-length|%d' % (f.path, ln), 'TransactionalMemory::new can read %d bytes at offset 0 of a storage whose length was not checked to be at least %d: a read past the end of the storage' % (ln, ln), f, c.line)


def round4_residue_rules(ctx):
    # --- tuple type names
    ctx.set_rule('C17.R9', 'a tuple type name classifies as user-defined when any element does: every element named is also asked is_user_defined')
    n = 0
    for f in ctx.facts.fn_list:
        if not (f.file.endswith('tuple_types.rs') and f.path.endswith('::type_name') and '(' in f.path and f.kind != 'closure'):
            continue
        s_ = core.sym(f)

        def ga_of_receiver(c):
            if not c.t['a']:
                return None
            t = s_.operand(c.t['a'][0])
            if t[0] == 'place':
                t = t[1]
            if t[0] == 'call':
                cs = core.CallSite(f, t[1], f.blocks[t[1]]['t'])
                if (cs.declared or cs.callee or '').split('::')[-1] == 'type_name':
                    return tuple(cs.t.get('ga') or [])
            return None
        named = {ga_of_receiver(c) for c in f.calls if (c.declared or c.callee or '').endswith('TypeName::name') and not f.blocks[c.bb]['c']}
        asked = {ga_of_receiver(c) for c in f.calls if (c.declared or c.callee or '').endswith('TypeName::is_user_defined') and not f.blocks[c.bb]['c']}
        named.discard(None)
        asked.discard(None)
        if not named:
            continue
        n += 1
        ok_ = named == asked
        ctx._ob(ok_, ctx.sample('agreement', f, f.line, 'elements named %s == elements classified %s' % (sorted(named), sorted(asked))))
        if not ok_:
            ctx.violate('agreement|%s|tuple-classification' % f.path, 'the tuple type name is built from elements %s but only %s are asked whether they are user-defined: a user type in another position is classified as built-in and can alias a built-in type name' % (sorted(named), sorted(asked)), f, f.line)
    ctx.check(n >= 11, 'floor|tuple-type-names', 'tuple type_name implementations analysed: %d' % n)
    # --- system table scans under the namespace lock
    ctx.set_rule('C16.R4', 'a system table of the write transaction is scanned while the system-tables lock is held')
    f = ctx.fn(WT + '::read_existing_system_table')
    if f is not None:
        cb = [cpoint(c, 'read closure') for c in f.calls if c.resolved is None and c.declared and c.declared.split('::')[-1] in ('call_once', 'call_mut', 'call')]
        ctx.check(len(cb) == 1, 'floor|%s|closure' % f.path, 'the caller\'s scan closure is invoked', f, f.line)
        ctx.held(f, cb, 'self.system_tables')
        bn = ctx.sites(f, 'Btree::new', exact=1)
        ctx.held(f, bn, 'self.system_tables')
    # --- multimap page walk: every subtree root of a leaf
    ctx.set_rule('C06.R4b', '')
    f = ctx.fn('UntypedMultiBtree::visit_all_pages')
    if f is not None:
        for cl in [c for c in f.closures if c.calls_to('multimap_btree::parse_subtree_roots')]:
            sv = [cpoint(c) for c in cl.calls_to('UntypedBtree::visit_all_pages')]
            if sv:
                ctx.each_iteration_passes(cl, sv, 'every value subtree named by a leaf of the outer tree is walked', 'subtree-not-walked', allow_return=False)
    # --- page paths of subtree pages keep the subtree's own ancestors
    ctx.set_rule('C13.R8', 'the path of a multimap subtree page contains the outer path and the whole path inside the subtree')
    f = ctx.fn('PagePath::with_subpath')
    if f is not None:
        s_ = core.sym(f)
        ex = ctx.sites(f, ['Vec::extend', 'Vec::extend_from_slice', 'Extend::extend'], exact=1)
        for p in ex:
            d = s_.describe(s_.operand(p.call.t['a'][1]))
            ok_ = d.startswith('other') and d.endswith('path')
            ctx._ob(ok_, ctx.sample('arg-flow', f, p.line, 'the sub-path appended is other.path (%s)' % d))
            if not ok_:
                ctx.violate('arg-flow|%s|subpath' % f.path, 'with_subpath does not append the whole path of `other` (appends %s): the ancestors of a subtree page inside its subtree are lost, and compaction cannot relocate it' % d, f, p.line)
        ctx.must_pass(f, ex, exits='any', what='the sub-path is appended')
        ctx.no_direct(f, ['Vec::push'], 'a single page number is not a path')


def survey3_rules(ctx):
    ctx.set_rule('C14.R5', 'the region tracker marks every affected order: free for all orders up to the given one, full from the given one upwards')
    for pat, callee, start_zero in (('RegionTracker::mark_free', 'BtreeBitmap::clear', True), ('RegionTracker::mark_full', 'BtreeBitmap::set', False)):
        f = ctx.fn(pat)
        if f is None:
            continue
        s_ = core.sym(f)
        p = ctx.sites(f, callee, exact=1)
        if p:
            ctx.each_iteration_passes(f, p, 'every order in the range is marked', 'order-skipped')
            for q in p:
                ctx.flows(f, q, 1, from_arg='region')
        # the range: mark_free runs 0..=order, mark_full runs order..len
        rng_ok = False
        for b in f.blocks:
            for st in b['s']:
                if st[0] == 'a' and st[2]['k'] == 'agg' and str(st[2].get('a', '')).endswith(('ops::Range', 'ops::RangeInclusive')):
                    t0 = s_.operand(st[2]['o'][0])
                    if start_zero:
                        rng_ok = rng_ok or (t0[0] == 'const' and str(t0[2]) == '0')
                    else:
                        rng_ok = rng_ok or (t0[0] != 'const')
            t = b['t']
            if t['k'] == 'call':
                cs = core.CallSite(f, f.blocks.index(b), t)
                if (cs.callee or '').endswith('RangeInclusive::<Idx>::new') or 'RangeInclusive' in (cs.callee or '') and (cs.callee or '').endswith('::new'):
                    t0 = s_.operand(t['a'][0])
                    if start_zero:
                        rng_ok = rng_ok or (t0[0] == 'const' and str(t0[2]) == '0')
        ctx.check(rng_ok, 'shape|%s|range-start' % f.path, '%s starts its range at %s' % (pat, '0' if start_zero else 'the given order'), f, f.line)
    ctx.set_rule('C07.R13', 'a persistent savepoint is not released when its handle is dropped; an ephemeral one is')
    f = ctx.fn('Savepoint::set_persistent')
    if f is not None:
        st = [p for p, s3 in _field_store_points(f, 'ephemeral') if s3[2]['k'] == 'use' and s3[2]['o'][0] == 'k' and s3[2]['o'][2] is False]
        ctx.check(len(st) == 1, 'floor|%s|ephemeral-false' % f.path, 'set_persistent clears the ephemeral flag', f, f.line)
        if st:
            ctx.must_pass(f, st, exits='any')
    f = ctx.fn('<Savepoint as Drop>::drop')
    if f is not None:
        dl = ctx.sites(f, TT + '::deallocate_savepoint', exact=1)
        ctx.guarded(f, dl, [Guard(place='self.ephemeral', vals={'true'})], 'only an ephemeral savepoint is released on drop')
        e_f = core.guard_edges(f, [Guard(place='self.ephemeral', vals={'false'})])
        ctx.must_pass(f, dl, exits='any', extra_cut_edges=e_f, what='an ephemeral savepoint is always released on drop')
    ctx.callers_eq('Savepoint::set_persistent', {WT + '::persistent_savepoint'})
    ctx.set_rule('C14.R1', '')
    f = ctx.fn('Allocators::resize_to')
    if f is not None:
        nw = ctx.sites(f, 'BuddyAllocator::new', exact=1)
        pu = [cpoint(c) for c in f.calls_to('Vec::push')]
        ctx.check(len(pu) >= 1, 'floor|%s|push' % f.path, 'a new region allocator is added to the list', f, f.line)
        if nw and pu:
            ctx.must_pass(f, pu, start=nw[0], exits='any', what='an allocator created for a new region is added to the list')


def own_growth_rules(ctx):
    """check_integrity() reloads the durable header and compares its layout with the file length.  A file that
    is longer than the stored layout because this process grew it for a transaction that was then rolled
    back is not damage: the reload asks, before it discards the live state, whether the file length is the
    one the live layout describes, and the clean / unclean verdict of the header takes that answer into
    account (an external change of length makes the two differ and is still reported)."""
    ctx.set_rule('C11.R8', 'a healthy database whose file was grown by a rolled-back transaction is not reported as repaired: the reload distinguishes its own file length from an external change')
    f = ctx.fn(TM + '::clear_cache_and_reload')
    g = ctx.fn('UnrepairedDatabaseHeader::finalize')
    if f is not None:
        m = [cpoint(c) for c in f.calls_to(TM + '::file_len_matches_layout')]
        dw = ctx.sites(f, PCF + '::discard_write_buffer', exact=1)
        fz = ctx.sites(f, 'UnrepairedDatabaseHeader::finalize', exact=1)
        ok_ = len(m) == 1
        ctx._ob(ok_, ctx.sample('shape', f, f.line, 'the reload asks whether the file length is the live layout\'s own'))
        if not ok_:
            ctx.violate('shape|%s|own-length-not-asked' % f.path, 'clear_cache_and_reload does not ask whether the file length is the one the live layout describes before discarding the live state: a file grown by a rolled-back transaction is then indistinguishable from an external change and check_integrity() reports a repair on a healthy database', f, f.line)
        else:
            ctx.order(f, m, dw, 'the question is asked before the live state is discarded')
            for p in fz:
                ok2 = len(p.call.t['a']) >= 3 and core.flows_from_call(f, p.call.t['a'][2], TM + '::file_len_matches_layout')
                ctx._ob(bool(ok2), ctx.sample('arg-flow', f, p.line, 'the answer reaches the header\'s clean / unclean verdict'))
                if not ok2:
                    ctx.violate('arg-flow|%s|own-length-unused' % f.path, 'the answer of file_len_matches_layout() does not reach UnrepairedDatabaseHeader::finalize', f, p.line)
    if g is not None:
        names = [g.local_name(i) for i in range(1, g.argc + 1)]
        has = 'own_file_len' in names
        ctx._ob(has, ctx.sample('shape', g, g.line, 'finalize takes the own-file-length answer'))
        if not has:
            ctx.violate('shape|%s|no-own-length-parameter' % g.path, 'UnrepairedDatabaseHeader::finalize cannot tell redb\'s own file growth from an external change of length (no own_file_len input): every layout discrepancy is reported as unclean', g, g.line)
        else:
            # `kept_primary && (layout_matched || own_file_len)`: the parameter is read once per verdict
            # (recovery branch and non-recovery branch)
            pl = names.index('own_file_len') + 1
            reads = 0
            for b in g.blocks:
                if b['c']:
                    continue
                for st in b['s']:
                    if st[0] == 'a':
                        for o in _rv_operands(st[2]):
                            if o[0] != 'k' and o[1][0] == pl and not o[1][1]:
                                reads += 1
                t = b['t']
                if t['k'] == 'sw' and t['o'][0] != 'k' and t['o'][1][0] == pl:
                    reads += 1
            ok3 = reads >= 2
            ctx._ob(ok3, ctx.sample('shape', g, g.line, 'both verdicts of finalize read own_file_len'))
            if not ok3:
                ctx.violate('shape|%s|verdict-ignores-own-length' % g.path, 'finalize reads own_file_len %d time(s): both of its verdicts (recovery and non-recovery branch) must take it into account' % reads, g, g.line)
    # the open path never claims the length as its own
    h = ctx.fn(TM + '::new')
    if h is not None:
        for c in h.calls_to('UnrepairedDatabaseHeader::finalize'):
            if len(c.t['a']) >= 3:
                t = core.sym(h).operand(c.t['a'][2])
                ctx.check(t[0] == 'const' and t[2] is False, 'const|%s|open-own-length' % h.path, 'opening a storage never treats its length as redb\'s own uncommitted growth', h, c.line)


def round5_rules(ctx):
    # --- cursor run splice: a failed splice poisons the cursor (the run and the position are already taken)
    ctx.set_rule('C05.R11', 'a failed splice of a coalescing run poisons the cursor: its buffered removals can no longer be applied')
    f = ctx.fn('CursorMut::splice_open_run')
    if f is not None:
        sr = ctx.sites(f, 'CursorMut::splice_run', exact=1)
        po = ctx.sites(f, 'CursorMut::poison', exact=1)
        ie = [c for c in f.calls if c.matches('Result::is_err') and not f.blocks[c.bb]['c']]
        if sr and po:
            if ie:
                e_ok = _switch_edges_on_call(f, ie[0].bb, False)
            else:
                e_ok = core.guard_edges(f, [ok('CursorMut::splice_run')])
            r = core.reach(f, start=(sr[0].bb, len(f.blocks[sr[0].bb]['s'])), cut_edges=e_ok, cut_blocks={p.bb for p in po})
            bad = [rb for rb in f.ret_blocks() if rb in r['term']] if e_ok else f.ret_blocks()
            ctx._ob(not bad, ctx.sample('must-pass', f, sr[0].line, 'Err from splice_run => poison'))
            if bad:
                ctx.violate('must-pass|%s|splice-error-not-poisoned' % f.path, 'splice_open_run can return the error of splice_run without poisoning the cursor: the transaction could commit a half-applied retain / extract', f, sr[0].line)
    f = ctx.fn('CursorMut::finish_pending_removals')
    if f is not None:
        so = ctx.sites(f, 'CursorMut::splice_open_run', exact=1)
        cl = ctx.sites(f, 'CursorMut::close_current_leaf', exact=1)
        ctx.must_pass(f, so, exits='success', what='finishing the pending removals always splices the run left open')
        ctx.guarded(f, so, [ok('CursorMut::check_not_poisoned')], 'nothing is applied by a poisoned cursor')
    # --- subtree trees of a multimap are keyed by the VALUE type
    ctx.set_rule('C12.R8', 'every tree built for a multimap value subtree uses the value width as its key width (sibling agreement in multimap_btree.rs)')
    n = 0
    for f in ctx.facts.fn_list:
        if not f.file.endswith('multimap_btree.rs'):
            continue
        s_ = core.sym(f)
        for c in f.calls:
            if f.blocks[c.bb]['c'] or not c.matches(('RawBtree::new', 'UntypedBtree::new', 'UntypedBtreeMut::new')):
                continue
            args = c.t['a']
            # the value-width argument is the last Option<usize>-like pair: find the pair (kw, vw) = the two args before which come root/mem/...
            widths = [a for a in args if True]
            # locate `<() as Value>::fixed_width()` among the arguments
            unit_idx = None
            for i_, a in enumerate(args):
                t = s_.operand(a)
                if t[0] == 'call':
                    cs = core.CallSite(f, t[1], f.blocks[t[1]]['t'])
                    if (cs.callee or '').endswith('::fixed_width') and (cs.t.get('ga') or [''])[0] in ('()',):
                        unit_idx = i_
            if unit_idx is None or unit_idx == 0:
                continue
            n += 1
            kd = s_.describe(s_.operand(args[unit_idx - 1]))
            ok_ = 'value' in kd and 'key' not in kd
            ctx._ob(ok_, ctx.sample('agreement', f, c.line, 'subtree key width is the value width (%s)' % kd))
            if not ok_:
                ctx.violate('agreement|%s|subtree-key-width' % f.path, 'a tree over a multimap value subtree is built with key width `%s`: subtrees are keyed by the value type, so pages are parsed / checksummed with the wrong layout' % kd, f, c.line)
    ctx.check(n >= 4, 'floor|subtree-constructors', 'constructions of subtree trees analysed: %d' % n)
    # --- multimap page walk: the full path of a subtree page starts with the outer path
    ctx.set_rule('C13.R8', '')
    f = ctx.fn('UntypedMultiBtree::visit_all_pages')
    if f is not None:
        for cl in f.closures:
            for inner in [cl] + list(cl.closures):
                for c in inner.calls_to('PagePath::with_subpath'):
                    s_ = core.sym(inner)
                    d = s_.describe(s_.operand(c.t['a'][0]))
                    ok_ = 'path' in d and 'call:' not in d
                    ctx._ob(ok_, ctx.sample('arg-flow', inner, c.line, 'with_subpath extends the outer path (%s)' % d))
                    if not ok_:
                        ctx.violate('arg-flow|%s|outer-path-dropped' % f.path, 'the path reported for a subtree page is not built on the outer page\'s own path (receiver: %s): its ancestors in the outer tree are lost' % d, inner, c.line)
                ctx.check(not inner.calls_to('PagePath::new_root'), 'shape|%s|new-root-in-walk|%s' % (f.path, inner.path.split('::')[-1]), 'the multimap walk does not start a fresh path for subtree pages', inner, inner.line)
    # --- claiming an unpersisted page removes it from every record
    ctx.set_rule('C06.R16', 'claiming an unpersisted page drops it from the page set, the reverse index and the per-transaction allocation record')
    f = ctx.fn('UnpersistedState::claim')
    if f is not None:
        s_ = core.sym(f)
        rms = [c for c in f.calls if (c.declared or c.callee or '').split('::')[-1] == 'remove' and not f.blocks[c.bb]['c']]
        subj = []
        for c in rms:
            subj.append(s_.describe(s_.operand(c.t['a'][0])).split('.')[-1])
        need = {'pages', 'post_commit_allocations', 'allocation_txn'}
        ok_ = need <= set(subj)
        ctx._ob(ok_, ctx.sample('shape', f, f.line, 'claim removes from %s' % sorted(set(subj))))
        if not ok_:
            ctx.violate('shape|%s|incomplete-claim' % f.path, 'claim() does not remove the page from %s' % sorted(need - set(subj)), f, f.line)
        # the page also leaves the forward record of its transaction: a remove on the set obtained from allocations.get_mut
        def from_get_mut(t, depth=0):
            if depth > 5:
                return False
            if t[0] == 'place':
                return from_get_mut(t[1], depth + 1)
            if t[0] == 'call':
                cs = core.CallSite(f, t[1], f.blocks[t[1]]['t'])
                nm = (cs.declared or cs.callee or '').split('::')[-1]
                if nm == 'get_mut':
                    return True
                if nm in ('expect', 'unwrap', 'branch', 'ok_or', 'ok_or_else') and cs.t['a']:
                    return from_get_mut(s_.operand(cs.t['a'][0]), depth + 1)
            return False
        fwd = [c for c in rms if from_get_mut(s_.operand(c.t['a'][0]))]
        ctx._ob(len(fwd) >= 1, ctx.sample('shape', f, f.line, 'the page leaves allocations[txn]'))
        if not fwd:
            ctx.violate('shape|%s|forward-record-kept' % f.path, 'claim() leaves the page in the per-transaction allocation record (allocations[txn]): a later savepoint restore or durable commit would treat a reclaimed page as allocated by that transaction', f, f.line)
    # --- savepoint records: the root-present marker
    ctx.set_rule('C07.R14', 'a serialised savepoint marks a null root as absent')
    f = ctx.fn('SerializedSavepoint::from_savepoint')
    if f is not None:
        pushes = [c for c in f.calls_to('Vec::push') if not f.blocks[c.bb]['c']]
        s_ = core.sym(f)
        consts = sorted(str(s_.operand(c.t['a'][1])[2]) for c in pushes if s_.operand(c.t['a'][1])[0] == 'const')
        ok_ = consts == ['0', '1']
        ctx._ob(ok_, ctx.sample('shape', f, f.line, 'marker 1 for a present root, 0 for a null root'))
        if not ok_:
            ctx.violate('shape|%s|root-marker' % f.path, 'from_savepoint does not write the constant markers 1 (root present) and 0 (null root) (constant pushes found: %s)' % consts, f, f.line)
        one = [cpoint(c) for c in pushes if s_.operand(c.t['a'][1]) [0] == 'const' and str(s_.operand(c.t['a'][1])[2]) == '1']
        zero = [cpoint(c) for c in pushes if s_.operand(c.t['a'][1])[0] == 'const' and str(s_.operand(c.t['a'][1])[2]) == '0']
        if one and zero:
            ctx.guarded(f, one, [Guard(place='savepoint.user_root', vals={'Some'})], 'marker 1 only for a present root')
            ctx.guarded(f, zero, [Guard(place='savepoint.user_root', vals={'None'})], 'marker 0 only for a null root')
    # --- double-ended range: an end is positioned before the two ends are compared
    ctx.set_rule('C02.R13', 'a range end is positioned before the ends are compared, so the first step of a fresh end cannot cross the other end')
    f = ctx.fn('BtreeCursorRange::next_from_inner')
    if f is not None:
        pr = ctx.sites(f, 'BtreeCursorRange::prepare', exact=1)
        hr = ctx.sites(f, 'BtreeCursorRange::cursors_have_remaining', exact=1)
        ad = ctx.sites(f, 'BtreeCursorRange::advance_cursor', exact=1)
        ctx.order(f, pr, hr, 'prepare(side) runs before cursors_have_remaining()')
        ctx.order(f, hr, ad, 'the ends are compared before the cursor advances')
    # --- check_integrity with a pending commit verifies from the storage
    ctx.set_rule('C12.R9', 'with a pending non-durable commit, check_integrity verifies the live and the durable state from the storage, not from the page cache')
    f = ctx.fn('Database::check_integrity_inner')
    if f is not None:
        cr = ctx.sites(f, TM + '::clear_read_cache', floor=1)
        rl = ctx.sites(f, 'Database::repair_live_state', exact=1)
        dc = ctx.sites(f, 'Database::durable_state_clean', exact=1)
        for p in rl + dc:
            r = core.reach(f, cut_blocks={q.bb for q in cr})
            okc = p.bb not in r['term']
            ctx._ob(okc, ctx.sample('order', f, p.line, 'read cache cleared before %s' % p.desc))
            if not okc:
                ctx.violate('order|%s|cached-verification|%s' % (f.path, p.desc), '%s can run without the read cache having been cleared: damage in the storage is hidden by cached pages and the check may certify it' % p.desc, f, p.line)


def handover_rules(ctx):
    ctx.set_rule('C06.R2', '')
    f = ctx.fn('TableTreeMut::flush_and_close')
    if f is not None:
        sw = ctx.sites(f, 'mem::swap', exact=1)
        cl = ctx.sites(f, 'PageTracker::close', exact=2)
        fi = ctx.sites(f, 'TableTreeMut::flush_inner', exact=1)
        # on the success arm the freed list is taken (swapped out) and the tracker's set is returned
        ctx.must_pass(f, sw, exits='success', what='the freed pages collected by this transaction are handed to the commit')
        for p in cl:
            pass
        ctx.must_pass(f, cl, exits='any', what='the allocation tracker is closed on every exit')
        for p in sw:
            ctx.flows(f, p, 0, from_call='Mutex::lock', what='the list swapped out is the one behind the freed-pages lock')
    f = ctx.fn('TableTreeMut::clear_pending_table_update')
    if f is not None:
        call_rule(ctx, 'TableTreeMut::clear_pending_table_update', 'BTreeMap::remove', 'opening a table takes its staged update out', exact=1, exits='any', arg_from=[(1, ('arg', 'name'))])


def _field_mut_users(facts, field):
    """functions that take a mutable borrow of, or assign to, a place going through `.field`"""
    out = {}
    for f in facts.fn_list:
        for bi, b in enumerate(f.blocks):
            if b['c']:
                continue
            for st in b['s']:
                if st[0] != 'a':
                    continue
                hit = False
                if ('.' + field) in st[1][1]:
                    hit = True
                rv = st[2]
                if isinstance(rv, dict) and rv.get('k') == 'ref' and rv.get('m') and ('.' + field) in rv['p'][1]:
                    hit = True
                if hit:
                    out.setdefault(f.path, (f, st[3]))
    return out


def round6_rules(ctx):
    # --- allocation records carry the id of the transaction that made the allocation
    ctx.set_rule('C06.R3', 'every allocation reaches DATA_ALLOCATED_TABLE under the id of the transaction that made it')
    f = ctx.fn(WT + '::flush_data_allocated_pages')
    if f is not None:
        we = ctx.sites(f, WT + '::write_allocated_pages_entry', exact=2)
        carried, own = [], []
        for p in we:
            a = p.call.t['a']
            id_from_take = core.flows_from_call(f, a[1], TM + '::take_unpersisted_allocations') if a[1][0] != 'k' else False
            pg_from_take = core.flows_from_call(f, a[2], TM + '::take_unpersisted_allocations') if a[2][0] != 'k' else False
            if pg_from_take:
                carried.append((p, id_from_take))
            else:
                own.append((p, id_from_take))
        ok_ = len(carried) == 1 and len(own) == 1
        ctx._ob(ok_, ctx.sample('sites', f, f.line, 'one record per carried-over transaction, one for this transaction'))
        if not ok_:
            ctx.violate('shape|%s|allocated-records' % f.path, 'expected one write of the carried-over allocations and one of this transaction\'s own (found %d/%d)' % (len(carried), len(own)), f, f.line)
        for p, idf in carried:
            ctx._ob(idf, ctx.sample('flow', f, p.line, 'carried-over allocations keep the id of the non-durable transaction that made them'))
            if not idf:
                ctx.violate('flow|%s|carried-id' % f.path, 'allocations carried over from earlier non-durable commits are recorded under an id that does not come from take_unpersisted_allocations: a savepoint taken between those commits and this one would not undo / would wrongly undo them', f, p.line)
        for p, idf in own:
            good = (not idf) and core.flows_from_arg(f, p.call.t['a'][2], 'data_allocated_pages')
            S_ = core.sym(f)
            d = S_.describe(S_.operand(p.call.t['a'][1])) if p.call.t['a'][1][0] != 'k' else ''
            good = good and d.endswith('transaction_id')
            ctx._ob(good, ctx.sample('flow', f, p.line, 'this transaction\'s allocations are recorded under self.transaction_id'))
            if not good:
                ctx.violate('flow|%s|own-id' % f.path, 'this transaction\'s own allocations must be recorded under self.transaction_id (found `%s`)' % d, f, p.line)
    # --- per-transaction savepoint lists: who may change them
    ctx.set_rule('C05.R12', 'the created / deleted / invalidated savepoint lists change only where they are recorded and where the transaction ends')
    STS = 'transactions::SavepointTransactionState::'
    table = {
        'created_persistent': {'record_created', 'apply_on_commit', 'apply_on_abort'},
        'deleted_persistent': {'record_deleted', 'apply_on_commit', 'apply_on_abort'},
        'invalidated': {'record_invalidated', 'apply_on_commit', 'apply_on_abort'},
    }
    if ctx.fn('SavepointTransactionState::record_created') is not None:
        for field, allowed in sorted(table.items()):
            users = {p: v for p, v in _field_mut_users(ctx.facts, field).items() if p.startswith(STS) or field != 'invalidated'}
            names = {p[len(STS):].split('::')[0] for p in users if p.startswith(STS)}
            miss = allowed - names
            ctx._ob(not miss, ctx.sample('writers', ctx.fn('SavepointTransactionState::record_created'), None, '%s is changed by %s' % (field, sorted(names))))
            if miss:
                ctx.violate('floor|SavepointTransactionState|%s|%s' % (field, '+'.join(sorted(miss))), 'expected `%s` to be changed by %s; missing %s' % (field, sorted(allowed), sorted(miss)))
            for p, (fn_, line) in sorted(users.items()):
                nm = p[len(STS):].split('::')[0] if p.startswith(STS) else p
                good = nm in allowed
                ctx._ob(good)
                if not good:
                    ctx.violate('who-may-write|%s|%s' % (p, field), '`%s` changes `%s`: a savepoint created (deleted) in this transaction must stay on its list until the transaction ends, or abort (commit) will not release its tracker registration' % (nm, field), fn_, line)


_BUILDER_NEW = ('LeafBuilder::new', 'BranchBuilder::new')
_BUILDER_BUILD = ('LeafBuilder::build', 'BranchBuilder::build', 'LeafBuilder::build_split', 'BranchBuilder::build_split')
_BUILDER_NOFILL = ('should_split', 'required_bytes', 'to_single_child', 'into_parts', 'push_key', 'replace_child')


def builder_fill_rules(ctx):
    """C10.R12: a page builder is given its entries before the page is built.  Per builder local:
    the `new` call N, the calls that take `&mut` of that builder (fills) and the `build` call B that
    consumes it; B is reachable from N only through a fill (a loop whose body fills counts as one:
    which iterations push is a value question -- the builders skip the deleted / replaced index)."""
    ctx.set_rule('C10.R12', 'every leaf / branch builder receives its entries (children) on every path between its creation and build()')
    n_builders = 0
    for f in ctx.facts.fn_list:
        if 'tests::' in f.path or f.path.startswith('tree_store::btree_base::LeafBuilder') or f.path.startswith('tree_store::btree_base::BranchBuilder'):
            continue
        news = [c for c in f.calls if any(c.matches(p) for p in _BUILDER_NEW) and not f.blocks[c.bb]['c'] and not c.t['d'][1]]
        if not news:
            continue
        builds = [c for c in f.calls if any(c.matches(p) for p in _BUILDER_BUILD) and not f.blocks[c.bb]['c']]
        cand = []
        for c in f.calls:
            if f.blocks[c.bb]['c'] or c in builds or c in news:
                continue
            if c.callee.split('::')[-1] in _BUILDER_NOFILL:
                continue
            for a in c.t['a']:
                if a[0] != 'k' and not a[1][1]:
                    ty = f.local_ty(a[1][0])
                    if ty.startswith('&mut') and ('LeafBuilder' in ty or 'BranchBuilder' in ty):
                        cand.append((c, a))
                        break
        nxt = [c for c in f.calls if c.matches('Iterator::next') and not f.blocks[c.bb]['c']]
        for n in news:
            kind = 'LeafBuilder' if n.matches('LeafBuilder::new') else 'BranchBuilder'
            mine_b = [b for b in builds if b.t['a'] and b.t['a'][0][0] != 'k' and n.bb in core.flow_sources(f, b.t['a'][0])[1]]
            if not mine_b:
                continue  # handed to a helper or returned: the callee / caller is checked
            fills = [c for (c, a) in cand if n.bb in core.flow_sources(f, a)[1]]
            n_builders += 1
            npt = cpoint(n)
            ok_ = bool(fills)
            ctx._ob(ok_, ctx.sample('sites', f, n.t.get('fl'), '%s created here is filled by %s' % (kind, sorted({c.callee.split('::')[-1] for c in fills}))))
            if not ok_:
                ctx.violate('floor|%s|%s-fill' % (f.path, kind), 'a %s is created and built without ever receiving an entry' % kind, f, n.t.get('fl'))
                continue
            # loops that contain a fill count as the fill (their body is checked per iteration)
            loop_fills, heads, unknown_cycle = [], [], False
            for c in fills:
                r = core.reach(f, start=(c.bb, len(f.blocks[c.bb]['s'])))
                in_cycle = any(f.succ(bb_)[si_][0] == c.bb for (bb_, si_) in r['edges'])
                if not in_cycle:
                    continue
                hs = []
                for h in nxt:
                    rh = core.reach(f, start=(h.bb, len(f.blocks[h.bb]['s'])), cut_blocks={m.bb for m in nxt if m.bb != h.bb})
                    if c.bb in rh['term'] and h.bb in r['term']:
                        hs.append(h)
                if hs:
                    loop_fills.append(c)
                    heads.extend(hs)
                else:
                    unknown_cycle = True
            if unknown_cycle:
                ctx.note('%s: a fill of the %s sits in a loop without an iterator header; order not decided' % (f.path, kind))
                continue
            before = [cpoint(c) for c in fills] + [cpoint(h) for h in heads]
            ctx.order(f, before, [cpoint(b) for b in mine_b], start=npt,
                      what='%s::build reached only after the builder was filled' % kind)
    ctx.check(n_builders >= 14, 'floor|builders', 'expected at least 14 locally built page builders, found %d' % n_builders)
