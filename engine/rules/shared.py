"""Rule instances shared by several properties (DESIGN.md section 5). Every function takes the
Ctx of the property that invokes it, so obligations and violations are attributed to that
property. Rule ids keep the id of the property that defines them (e.g. C01.R5 used by C02)."""
from rulekit import Guard, cpoint, Point
import core

TM = 'TransactionalMemory'
PCF = 'PagedCachedFile'
CB = 'CheckedBackend'
PA = 'PageAllocator'
WT = 'WriteTransaction'
TT = 'TransactionTracker'


def ok(call):
    return Guard(call=call, vals={'Ok', 'Some'})


def err(call):
    return Guard(call=call, vals={'Err', 'None'})


def true_of(call):
    return Guard(call=call, vals={'true'})


def false_of(call):
    return Guard(call=call, vals={'false'})


# ------------------------------------------------------------------------------------ C01.R1
def c01_r1_commit_protocol(ctx):
    ctx.set_rule('C01.R1', 'TM::commit: secondary slot -> header -> [2PC flush] -> primary flip -> header -> flush -> shrink -> publish')
    f = ctx.fn(TM + '::commit')
    if f is None:
        return
    wss = ctx.sites(f, 'DatabaseHeader::write_secondary_slot', exact=1)
    wh = ctx.sites(f, TM + '::write_header', exact=2)
    swap = ctx.sites(f, 'DatabaseHeader::swap_primary_slot', exact=1)
    fl = ctx.sites(f, PCF + '::flush', exact=2)
    rs = ctx.sites(f, PCF + '::resize', exact=1)
    if not (len(wss) == 1 and len(wh) == 2 and len(swap) == 1 and len(fl) == 2 and len(rs) == 1):
        return
    # identify first/second header write: the first is the one not cut off by swap
    r = core.reach(f, cut_blocks={swap[0].bb})
    wh1 = [p for p in wh if p.bb in r['term']]
    wh2 = [p for p in wh if p.bb not in r['term']]
    ctx.check(len(wh1) == 1 and len(wh2) == 1, 'shape|write_header-around-swap', 'exactly one write_header before and one after swap_primary_slot', f, swap[0].line)
    if not (len(wh1) == 1 and len(wh2) == 1):
        return
    fl_final = [p for p in fl if p.bb not in r['term']]
    fl_2pc = [p for p in fl if p.bb in r['term']]
    ctx.check(len(fl_final) == 1 and len(fl_2pc) == 1, 'shape|flush-around-swap', 'one flush before (2PC) and one after swap_primary_slot', f, swap[0].line)
    if not (len(fl_final) == 1 and len(fl_2pc) == 1):
        return
    # (a) order chain
    ctx.order(f, wss, wh1, 'write_secondary_slot before first write_header')
    ctx.order(f, wh1, swap, 'first write_header before swap_primary_slot')
    ctx.order(f, swap, wh2, 'swap_primary_slot before second write_header')
    ctx.order(f, wh2, fl_final, 'second write_header before final flush')
    # the first header write must have succeeded before the flip
    ctx.guarded(f, swap, [ok(TM + '::write_header')], 'swap_primary_slot only after write_header returned Ok')
    # (b) every success path from the flip passes the second header write and the final flush (Ok)
    ctx.must_pass(f, wh2, start=swap[0], what='every success path after swap_primary_slot writes the header')
    ctx.must_pass(f, fl_final, start=wh2[0], what='every success path after the second write_header passes PagedCachedFile::flush')
    # (c) 2PC: with two_phase == true, swap is unreachable from the first header write without flush
    e_false = core.guard_edges(f, [Guard(place='two_phase', vals={'false'})])
    ctx.check(bool(e_false), 'guard-missing|two_phase', 'a test of parameter two_phase exists in TM::commit', f, f.line)
    cb, _cp = ctx._cuts(f, fl_2pc)
    r2 = core.reach(f, start=(wh1[0].bb, wh1[0].idx), cut_blocks=cb, cut_edges=e_false)
    hit = swap[0].bb in r2['term']
    ctx._ob(not hit, ctx.sample('guard', f, swap[0].line, 'two_phase=true: swap_primary_slot unreachable from first write_header without flush'))
    if hit:
        ctx.violate('2pc-flush|%s' % f.path, 'two-phase commit: swap_primary_slot reachable from the first write_header without passing PagedCachedFile::flush when two_phase is true', f, swap[0].line,
                    core.path_lines(f, core.find_path(f, swap[0].bb, cut_blocks=cb, cut_edges=e_false, start=(wh1[0].bb, wh1[0].idx))))
    # the 2PC flush must have succeeded
    r3 = core.reach(f, start=(fl_2pc[0].bb, fl_2pc[0].idx), cut_edges=core.guard_edges(f, [ok(PCF + '::flush')]))
    ctx.check(swap[0].bb not in r3['term'], '2pc-flush-ok|%s' % f.path, 'after the 2PC flush, swap_primary_slot only on its Ok edge', f, fl_2pc[0].line)
    # (d) shrink only after the final flush succeeded
    r4 = core.reach(f, cut_blocks={fl_final[0].bb})
    ctx.check(rs[0].bb not in r4['term'], 'order|%s|final-flush|resize' % f.path, 'file resize (shrink) only after the final flush', f, rs[0].line)
    r5 = core.reach(f, start=(fl_final[0].bb, fl_final[0].idx), cut_edges=core.guard_edges(f, [ok(PCF + '::flush')]))
    ctx.check(rs[0].bb not in r5['term'], 'after-success|%s|final-flush|resize' % f.path, 'file resize (shrink) only on the Ok edge of the final flush', f, rs[0].line)
    # (e) two_phase_commit store between the two header writes
    st2 = ctx.stores(f, 'two_phase_commit', owner='DatabaseHeader')
    ctx.order(f, wh1, st2, 'header.two_phase_commit stored after the first write_header')
    for s in st2:
        ctx.order(f, [s], wh2, 'header.two_phase_commit stored before the second write_header')
        ok_flow = False
        rv = s.fn.blocks[s.bb]['s'][s.idx][2]
        if rv['k'] == 'use':
            ok_flow = core.flows_from_arg(f, rv['o'], 'two_phase')
        ctx.check(ok_flow, 'flow|%s|two_phase_commit' % f.path, 'header.two_phase_commit is assigned from parameter two_phase', f, s.line)
    # (f) in-memory publication after the final flush succeeded, under the state lock
    pub = ctx.stores(f, 'header', owner='InMemoryState')
    rfs = ctx.stores(f, 'read_from_secondary', owner='InMemoryState', value=False)
    for p in pub + rfs:
        ctx.check(not core.point_reached(f, r4, p.bb, p.idx), 'order|%s|final-flush|%s' % (f.path, p.desc), '%s only after the final flush' % p.desc, f, p.line)
        ctx.check(not core.point_reached(f, r5, p.bb, p.idx), 'after-success|%s|final-flush|%s' % (f.path, p.desc), '%s only on the Ok edge of the final flush' % p.desc, f, p.line)
    held_at_stores(ctx, f, pub + rfs, 'self.state')
    # (g) id monotonicity assert cuts write_secondary_slot (assert!, not debug_assert!)
    ctx.guarded_cmp(f, wss, [Guard(call='DatabaseHeader::primary_slot', cmp=True)], 'write_secondary_slot control-dependent on the transaction-id comparison with the primary slot')
    # entry: refuse after an I/O failure
    ctx.guarded(f, wss + wh, [ok(PCF + '::check_io_errors')], 'header writes only after check_io_errors returned Ok')
    # unpersisted.clear only after final flush Ok
    clr = ctx.sites(f, 'UnpersistedState::clear', exact=1)
    for p in clr:
        ctx.check(p.bb not in r5['term'], 'after-success|%s|final-flush|unpersisted.clear' % f.path, 'UnpersistedState::clear only on the Ok edge of the final flush', f, p.line)


def held_at_stores(ctx, f, points, lock_desc):
    """a store through a MutexGuard deref: the guard local must be live at the block."""
    for p in points:
        classes = core.held_classes_at(p.fn, p.bb, p.idx)
        # statement-level: guard must be live at the terminator of the block or acquired earlier in block
        okk = any(c == lock_desc or c.endswith(lock_desc) for c in classes)
        ctx._ob(okk, ctx.sample('held', p.fn, p.line, '%s under lock %s' % (p.desc, lock_desc)))
        if not okk:
            ctx.violate('held|%s|%s|%s' % (p.fn.path, p.desc, lock_desc), 'HELD-LOCK violated: %s without a live guard of %s (live: %s)' % (p.desc, lock_desc, sorted(classes)), p.fn, p.line)
