from rules import shared as S
from rules import late as L

DOC = {'explanation': 'C14 structural clauses (see DESIGN.md section 5)', 'decided': [], 'not_decided': []}


def rules(ctx):
    S.c14_rules(ctx)
    S.c20_r4_page_addresses(ctx)
    S.c06_r4_rebuild(ctx)
    S.c11_rules(ctx)
    S.c02_r5_free_leaves_caches(ctx)

    S.compaction_target_rules(ctx)
    S.buddy_split_rules(ctx)
    S.replaced_range_rules(ctx)
    S.after_bound_rules(ctx)
    S.survey2_rules(ctx)
    S.survey3_rules(ctx)
    L.round7_rules(ctx)
