from rules import shared as S
from rules import late as L

DOC = {
    'explanation': 'C06 structural clauses: freed pages are merged/queued on every exit, linear hand-over of page lists at commit, durable commit drains the in-memory stand-ins in order, the rebuild walks the same owners, tracking discipline, restore frees/queues, who-may-free tables and horizons',
    'decided': [],
    'not_decided': ['completeness (no leak) and exclusivity over histories', 'allocator arithmetic'],
}


def rules(ctx):
    S.c02_r3_free_horizon(ctx)
    S.c02_r4_who_frees(ctx)
    S.c05_r1_abort_path(ctx)
    S.c01_r5_cow(ctx)
    S.c06_r1_freed_merged(ctx)
    S.c06_r2_handover(ctx)
    S.c06_r7_multimap(ctx)
    S.c06_r3_durable_drains(ctx)
    S.c06_r4_rebuild(ctx)
    S.c06_r5_tracking(ctx)
    S.c06_r6_restore(ctx)
    S.walker_rules(ctx)
    S.full_range_rules(ctx)
    S.refcount_rules(ctx)
    S.c07_rules(ctx)
    S.c11_rules(ctx)
    S.tracker_state_rules(ctx)
    S.loop_completeness_rules(ctx)

    S.compaction_target_rules(ctx)
    S.system_freed_store_rules(ctx)
    S.state_writer_rules(ctx)
    S.mutator_release_rules(ctx)
    S.free_verdict_rules(ctx)
    S.key_compare_rules(ctx)
    S.buddy_split_rules(ctx)
    S.replaced_range_rules(ctx)
    S.survey_residue_rules(ctx)
    S.restore_commit_rules(ctx)
    S.untracked_allocation_rules(ctx)
    S.relocate_tree_rules(ctx)
    S.after_bound_rules(ctx)
    S.relocation_content_rules(ctx)
    S.tree_root_update_rules(ctx)
    S.survey2_rules(ctx)
    S.oldest_search_rules(ctx)
    S.snapshot_atomic_rules(ctx)
    S.round4_residue_rules(ctx)
    S.survey3_rules(ctx)
    S.round5_rules(ctx)
    S.handover_rules(ctx)
    S.round6_rules(ctx)
    L.get_mut_cow_rules(ctx)
    L.round7_rules(ctx)
