from rules import shared as S

DOC = {'explanation': 'C17 structural clauses (see DESIGN.md section 5)', 'decided': [], 'not_decided': []}


def rules(ctx):
    S.c17_rules(ctx)
    S.c05_r4_poison(ctx)
    S.walker_rules(ctx)
    S.full_range_rules(ctx)
    S.c10_rules(ctx)
    S.c06_r7_multimap(ctx)
    S.loop_completeness_rules(ctx)
    S.staged_root_rules(ctx)
    S.handle_close_rules(ctx)
    S.state_writer_rules(ctx)
    S.free_verdict_rules(ctx)
    S.key_compare_rules(ctx)
    S.extract_state_rules(ctx)
    S.round4_residue_rules(ctx)
    S.handover_rules(ctx)
