from rules import shared as S

DOC = {
    'explanation': 'C01 structural clauses: ordering of durability points, copy-on-write API shape, irreversibility latch, recovery ordering',
    'decided': [],
    'not_decided': ['that the set of persisted-write subsets always yields exactly one commit point (needs crash enumeration)'],
}


def rules(ctx):
    S.c01_r1_commit_protocol(ctx)
