from rules import shared as S

DOC = {
    'explanation': 'C01 structural clauses: ordering of durability points, copy-on-write API shape, irreversibility latch, recovery ordering',
    'decided': [],
    'not_decided': ['that the set of persisted-write subsets always yields exactly one commit point (needs crash enumeration)'],
}

WITNESSES = ['C01W1Fail', 'C01W1Twin', 'C01W2Fail', 'C01W2Twin', 'C01W3Fail', 'C01W3Twin']


def rules(ctx):
    S.c01_r1_commit_protocol(ctx)
    S.c01_r2_grow(ctx)
    S.c01_r3_owners(ctx)
    S.c01_r4_non_durable(ctx)
    S.c01_r5_cow(ctx)
    S.c01_r6_checksums_final(ctx)
    S.c01_r7_latch(ctx)
    S.c01_r8_open_recovery(ctx)
    S.c01_r9_clean_close(ctx)
    S.c05_r7_savepoint_symmetry(ctx)
    S.c12_tree_rules(ctx)
    S.c12_db_rules(ctx)
    S.walker_rules(ctx)
    S.full_range_rules(ctx)
    S.c11_rules(ctx)
    S.c06_r3_durable_drains(ctx)
    S.c06_r4_rebuild(ctx)
    S.c06_r2_handover(ctx)
    S.refcount_rules(ctx)
    S.loop_completeness_rules(ctx)
    # a dirty page dropped by a failed write-back never reaches the next commit's flush
    S.c08_r8_flush_keeps_page(ctx)
    S.c08_r2_check_then_latch(ctx)
    S.allocator_snapshot_complete_rules(ctx)
    S.system_freed_store_rules(ctx)
    S.commit_mode_setter_rules(ctx)
    S.cache_reset_rules(ctx)
    S.handle_close_rules(ctx)
    S.state_writer_rules(ctx)
    S.header_codec_rules(ctx)
    S.mutator_release_rules(ctx)
    S.child_pair_rules(ctx)
    S.root_pair_rules(ctx)
    S.survey_residue_rules(ctx)
    S.create_only_when_empty_rules(ctx)
    S.durability_guard_rules(ctx)
    S.flush_take_rules(ctx)
    S.round5_rules(ctx)
    S.handover_rules(ctx)
