from rules import shared as S
from rules import late as L

DOC = {'explanation': 'C12 structural clauses (see DESIGN.md section 5)', 'decided': [], 'not_decided': []}


def rules(ctx):
    S.c12_db_rules(ctx)
    S.c12_tree_rules(ctx)
    S.c11_rules(ctx)
    S.c01_r8_open_recovery(ctx)
    S.walker_rules(ctx)
    S.full_range_rules(ctx)
    S.refcount_rules(ctx)
    S.cache_reset_rules(ctx)
    S.header_codec_rules(ctx)
    S.child_pair_rules(ctx)
    S.root_pair_rules(ctx)
    S.create_only_when_empty_rules(ctx)
    S.open_reads_within_length_rules(ctx)
    S.own_growth_rules(ctx)
    S.round5_rules(ctx)
    S.round6_rules(ctx)
    L.verify_cycle_guard_rules(ctx)
    L.depth_bound_rules(ctx)
