from rules import shared as S
from rules import late as L

DOC = {
    'explanation': 'C05 structural clauses: abort path completeness/order, leak latch, allocation recording, poison on partial failure, poisoned/aborted transactions cannot publish, Drop behaviour, savepoint bookkeeping symmetry',
    'decided': [],
    'not_decided': ['equality of the observable state before/after (value-level)'],
}

WITNESSES = ['C05W1Fail', 'C05W1Twin', 'C05W2Fail', 'C05W2Twin']


def rules(ctx):
    S.c05_r1_abort_path(ctx)
    S.c05_r4_poison(ctx)
    S.c03_r4_no_publish_on_abort(ctx)
    S.c05_r6_drop(ctx)
    S.c05_r7_savepoint_symmetry(ctx)
    S.c06_r1_freed_merged(ctx)
    S.c02_r4_who_frees(ctx)
    S.c06_r6_restore(ctx)
    S.c07_rules(ctx)
    S.tracker_state_rules(ctx)
    S.loop_completeness_rules(ctx)
    S.cache_reset_rules(ctx)
    S.mutator_release_rules(ctx)
    S.free_verdict_rules(ctx)
    S.replaced_range_rules(ctx)
    S.survey_residue_rules(ctx)
    S.restore_commit_rules(ctx)
    S.untracked_allocation_rules(ctx)
    S.after_bound_rules(ctx)
    S.extract_state_rules(ctx)
    S.survey2_rules(ctx)
    S.round5_rules(ctx)
    S.handover_rules(ctx)
    S.round6_rules(ctx)
    L.retain_poison_report_rules(ctx)
