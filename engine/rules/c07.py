from rules import shared as S
from rules import late as L

DOC = {
    'explanation': 'C07 structural clauses: capture under the tables lock, validity checks cut off the restore, durability discipline, lifecycle, commit/abort bookkeeping, re-registration on open, purge horizon, snapshot pinning, restore frees/queues',
    'decided': [],
    'not_decided': ['equality of restored contents', 'persistence across crashes beyond the C01 ordering clauses'],
}

WITNESSES = ['C07W1Fail', 'C07W1Twin']


def rules(ctx):
    S.c07_rules(ctx)
    S.c02_r2_register_before_root(ctx)
    S.c06_r6_restore(ctx)
    S.refcount_rules(ctx)
    S.c05_r1_abort_path(ctx)
    S.c02_r3_free_horizon(ctx)
    S.c06_r5_tracking(ctx)
    S.c02_r4_who_frees(ctx)
    S.tracker_state_rules(ctx)
    S.loop_completeness_rules(ctx)
    S.savepoint_counter_rules(ctx)
    S.state_writer_rules(ctx)
    S.key_compare_rules(ctx)
    S.c06_r3_durable_drains(ctx)
    S.survey_residue_rules(ctx)
    S.restore_commit_rules(ctx)
    S.untracked_allocation_rules(ctx)
    S.after_bound_rules(ctx)
    S.durability_guard_rules(ctx)
    S.survey2_rules(ctx)
    S.oldest_search_rules(ctx)
    S.survey3_rules(ctx)
    S.round5_rules(ctx)
    S.round6_rules(ctx)
    L.round7_rules(ctx)
