"""Type-level witnesses (P9): compile the doctests of /verif/witness against REPO with
`cargo +nightly test --doc` (error codes are only checked on nightly). Nothing of redb is executed:
`compile_fail` tests must fail to compile with the stated code, their `no_run` twins must compile."""
import os
import re
import shutil
import subprocess

_cache = {}


def run(workdir):
    if 'r' in _cache:
        return _cache['r']
    import run as runner
    src = os.path.join(runner.VERIF, 'witness')
    dst = os.path.join(workdir, 'witness')
    if os.path.exists(dst):
        shutil.rmtree(dst)
    shutil.copytree(src, dst, ignore=shutil.ignore_patterns('target', 'Cargo.lock'))
    ct = os.path.join(dst, 'Cargo.toml')
    s = open(ct).read().replace('path = "/repo"', 'path = "%s"' % runner.REPO)
    open(ct, 'w').write(s)
    shutil.copy(os.path.join(runner.REPO, 'Cargo.lock'), os.path.join(dst, 'Cargo.lock'))
    env = dict(os.environ)
    env['CARGO_TARGET_DIR'] = os.path.join(workdir, 'witness-target')
    env['CARGO_NET_OFFLINE'] = 'true'
    env.pop('RUSTC_WORKSPACE_WRAPPER', None)
    env.pop('RUSTFLAGS', None)
    p = subprocess.run(['cargo', '+nightly', 'test', '--doc', '--offline'], cwd=dst, env=env, stdout=subprocess.PIPE, stderr=subprocess.STDOUT, text=True)
    shutil.rmtree(env['CARGO_TARGET_DIR'], ignore_errors=True)
    res = {}
    for m in re.finditer(r'^test src/lib\.rs - (\w+) \(line \d+\)(?: - (compile fail|compile))? \.\.\. (\w+)', p.stdout, re.M):
        res[m.group(1)] = {'kind': m.group(2), 'ok': m.group(3) == 'ok'}
    r = {'results': res, 'raw_tail': p.stdout[-1500:], 'rc': p.returncode}
    _cache['r'] = r
    return r


def check(workdir, names):
    """names: witness item names (e.g. C01W1Fail, C01W1Twin) -> extras entry"""
    r = run(workdir)
    viol = []
    for n in names:
        x = r['results'].get(n)
        if x is None:
            viol.append(('witness|%s|missing' % n, 'witness %s did not run (doctest harness output: %s)' % (n, r['raw_tail'][-300:])))
        elif not x['ok']:
            if n.endswith('Fail'):
                viol.append(('witness|%s' % n, 'compile-fail witness %s no longer fails to compile with the expected error: the type system no longer rules this misuse out' % n))
            else:
                viol.append(('witness|%s' % n, 'twin %s no longer compiles: the witness pair is broken (API changed?)' % n))
    return {'name': 'type-level witnesses', 'ok': not viol, 'obligations': len(names), 'violations': viol,
            'detail': {n: r['results'].get(n) for n in names}}
