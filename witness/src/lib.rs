//! Type-level witnesses (DESIGN.md P9). Every `*Fail` item carries a `compile_fail,E0xxx` doctest
//! (checked with the error code under `cargo +nightly test --doc`) and every `*Twin` item the same
//! program without the offending line, as `no_run`, so that a witness whose path is merely wrong
//! cannot pass. Doctests are only compiled; nothing of redb is executed.
#![allow(dead_code)]

/// C01.W1 / C03.W1: `commit(self)` consumes the transaction, a table borrowed from it cannot be
/// used afterwards.
/// ```compile_fail,E0505
/// use redb::{Database, TableDefinition, ReadableTableMetadata};
/// const T: TableDefinition<u64, u64> = TableDefinition::new("t");
/// fn main() -> Result<(), redb::Error> {
///     let db = Database::create("x.redb")?;
///     let w = db.begin_write()?;
///     let t = w.open_table(T)?;
///     w.commit()?;
///     let _ = t.len()?; // `w` was moved while `t` still borrows it
///     Ok(())
/// }
/// ```
pub struct C01W1Fail;

/// ```no_run
/// use redb::{Database, TableDefinition, ReadableTableMetadata};
/// const T: TableDefinition<u64, u64> = TableDefinition::new("t");
/// fn main() -> Result<(), redb::Error> {
///     let db = Database::create("x.redb")?;
///     let w = db.begin_write()?;
///     let t = w.open_table(T)?;
///     let _ = t.len()?;
///     drop(t);
///     w.commit()?;
///     Ok(())
/// }
/// ```
pub struct C01W1Twin;

/// C01.W2 / C03.W1: a committed transaction cannot be used again.
/// ```compile_fail,E0382
/// use redb::{Database, TableDefinition};
/// const T: TableDefinition<u64, u64> = TableDefinition::new("t");
/// fn main() -> Result<(), redb::Error> {
///     let db = Database::create("x.redb")?;
///     let w = db.begin_write()?;
///     w.commit()?;
///     let _t = w.open_table(T)?; // use after move
///     Ok(())
/// }
/// ```
pub struct C01W2Fail;

/// ```no_run
/// use redb::{Database, TableDefinition};
/// const T: TableDefinition<u64, u64> = TableDefinition::new("t");
/// fn main() -> Result<(), redb::Error> {
///     let db = Database::create("x.redb")?;
///     let w = db.begin_write()?;
///     { let _t = w.open_table(T)?; }
///     w.commit()?;
///     Ok(())
/// }
/// ```
pub struct C01W2Twin;

/// C02.W1: a read-only table has no mutating method.
/// ```compile_fail,E0599
/// use redb::{Database, ReadableDatabase, TableDefinition};
/// const T: TableDefinition<u64, u64> = TableDefinition::new("t");
/// fn main() -> Result<(), redb::Error> {
///     let db = Database::create("x.redb")?;
///     let r = db.begin_read()?;
///     let t = r.open_table(T)?;
///     t.insert(&1, &2)?; // no method `insert` on ReadOnlyTable
///     Ok(())
/// }
/// ```
pub struct C02W1Fail;

/// ```no_run
/// use redb::{Database, ReadableDatabase, ReadableTable, TableDefinition};
/// const T: TableDefinition<u64, u64> = TableDefinition::new("t");
/// fn main() -> Result<(), redb::Error> {
///     let db = Database::create("x.redb")?;
///     let r = db.begin_read()?;
///     let t = r.open_table(T)?;
///     let _ = t.get(&1)?;
///     Ok(())
/// }
/// ```
pub struct C02W1Twin;

/// C07.W1: `restore_savepoint(&mut self)` needs exclusive access: no table may be open.
/// ```compile_fail,E0502
/// use redb::{Database, TableDefinition, ReadableTableMetadata};
/// const T: TableDefinition<u64, u64> = TableDefinition::new("t");
/// fn main() -> Result<(), redb::Error> {
///     let db = Database::create("x.redb")?;
///     let mut w = db.begin_write()?;
///     let sp = w.ephemeral_savepoint()?;
///     let t = w.open_table(T)?;
///     w.restore_savepoint(&sp)?; // mutable borrow while `t` borrows `w`
///     let _ = t.len()?;
///     Ok(())
/// }
/// ```
pub struct C07W1Fail;

/// ```no_run
/// use redb::{Database, TableDefinition, ReadableTableMetadata};
/// const T: TableDefinition<u64, u64> = TableDefinition::new("t");
/// fn main() -> Result<(), redb::Error> {
///     let db = Database::create("x.redb")?;
///     let mut w = db.begin_write()?;
///     let sp = w.ephemeral_savepoint()?;
///     let t = w.open_table(T)?;
///     let _ = t.len()?;
///     drop(t);
///     w.restore_savepoint(&sp)?;
///     Ok(())
/// }
/// ```
pub struct C07W1Twin;

/// C13.W1: `compact` / `check_integrity` need `&mut Database`.
/// ```compile_fail,E0596
/// use redb::Database;
/// fn main() -> Result<(), redb::Error> {
///     let db = Database::create("x.redb")?;
///     db.compact()?; // cannot borrow `db` as mutable
///     Ok(())
/// }
/// ```
pub struct C13W1Fail;

/// ```no_run
/// use redb::Database;
/// fn main() -> Result<(), redb::Error> {
///     let mut db = Database::create("x.redb")?;
///     db.compact()?;
///     let _ = db.check_integrity()?;
///     Ok(())
/// }
/// ```
pub struct C13W1Twin;

/// C16.W1: a table cannot outlive its write transaction.
/// ```compile_fail,E0597
/// use redb::{Database, TableDefinition, ReadableTableMetadata};
/// const T: TableDefinition<u64, u64> = TableDefinition::new("t");
/// fn main() -> Result<(), redb::Error> {
///     let db = Database::create("x.redb")?;
///     let t;
///     {
///         let w = db.begin_write()?;
///         t = w.open_table(T)?; // `w` does not live long enough
///     }
///     let _ = t.len()?;
///     Ok(())
/// }
/// ```
pub struct C16W1Fail;

/// C16.W1 twin and Send/Sync assertions: one write transaction may be shared between threads and
/// its tables moved to them.
/// ```no_run
/// use redb::{Database, TableDefinition, ReadableTableMetadata, WriteTransaction, Table, MultimapTable};
/// const T: TableDefinition<u64, u64> = TableDefinition::new("t");
/// fn assert_send<X: Send>() {}
/// fn assert_sync<X: Sync>() {}
/// fn main() -> Result<(), redb::Error> {
///     assert_send::<WriteTransaction>();
///     assert_sync::<WriteTransaction>();
///     assert_send::<Table<'static, u64, u64>>();
///     assert_send::<MultimapTable<'static, u64, u64>>();
///     let db = Database::create("x.redb")?;
///     let w = db.begin_write()?;
///     {
///         let t = w.open_table(T)?;
///         let _ = t.len()?;
///     }
///     w.commit()?;
///     Ok(())
/// }
/// ```
pub struct C16W1Twin;

/// C20.W1: a read-only database has no write entry points.
/// ```compile_fail,E0599
/// use redb::ReadOnlyDatabase;
/// fn main() -> Result<(), redb::Error> {
///     let db = ReadOnlyDatabase::open("x.redb")?;
///     let _w = db.begin_write()?; // no method `begin_write`
///     Ok(())
/// }
/// ```
pub struct C20W1Fail;

/// ```compile_fail,E0599
/// use redb::ReadOnlyDatabase;
/// fn main() -> Result<(), redb::Error> {
///     let mut db = ReadOnlyDatabase::open("x.redb")?;
///     db.compact()?; // no method `compact`
///     Ok(())
/// }
/// ```
pub struct C20W2Fail;

/// ```no_run
/// use redb::{ReadOnlyDatabase, ReadableDatabase};
/// fn main() -> Result<(), redb::Error> {
///     let db = ReadOnlyDatabase::open("x.redb")?;
///     let _r = db.begin_read()?;
///     Ok(())
/// }
/// ```
pub struct C20W1Twin;

/// C05.W1: `abort(self)` consumes the transaction: nothing can be written through it afterwards.
/// ```compile_fail,E0382
/// use redb::{Database, TableDefinition};
/// const T: TableDefinition<u64, u64> = TableDefinition::new("t");
/// fn main() -> Result<(), redb::Error> {
///     let db = Database::create("x.redb")?;
///     let w = db.begin_write()?;
///     w.abort()?;
///     let _t = w.open_table(T)?; // use after move
///     Ok(())
/// }
/// ```
pub struct C05W1Fail;

/// ```no_run
/// use redb::{Database, TableDefinition};
/// const T: TableDefinition<u64, u64> = TableDefinition::new("t");
/// fn main() -> Result<(), redb::Error> {
///     let db = Database::create("x.redb")?;
///     let w = db.begin_write()?;
///     { let _t = w.open_table(T)?; }
///     w.abort()?;
///     Ok(())
/// }
/// ```
pub struct C05W1Twin;

/// C01.W3: the in-place mutable value handle borrows the table exclusively: the page it points
/// into cannot be read or rewritten through the table while the handle lives.
/// ```compile_fail,E0502
/// use redb::{Database, ReadableTable, TableDefinition};
/// const T: TableDefinition<u64, &[u8]> = TableDefinition::new("t");
/// fn main() -> Result<(), redb::Error> {
///     let db = Database::create("x.redb")?;
///     let w = db.begin_write()?;
///     {
///         let mut t = w.open_table(T)?;
///         let mut g = t.insert_reserve(&1, 8)?;
///         let _ = t.get(&1)?; // shared borrow while `g` holds the exclusive one
///         g.as_mut()[0] = 1;
///     }
///     w.commit()?;
///     Ok(())
/// }
/// ```
pub struct C01W3Fail;

/// ```no_run
/// use redb::{Database, ReadableTable, TableDefinition};
/// const T: TableDefinition<u64, &[u8]> = TableDefinition::new("t");
/// fn main() -> Result<(), redb::Error> {
///     let db = Database::create("x.redb")?;
///     let w = db.begin_write()?;
///     {
///         let mut t = w.open_table(T)?;
///         let mut g = t.insert_reserve(&1, 8)?;
///         g.as_mut()[0] = 1;
///         drop(g);
///         let _ = t.get(&1)?;
///     }
///     w.commit()?;
///     Ok(())
/// }
/// ```
pub struct C01W3Twin;

/// C05.W2: a draining iterator borrows the table exclusively: no other operation on the table can
/// run between two of its steps.
/// ```compile_fail,E0499
/// use redb::{Database, TableDefinition};
/// const T: TableDefinition<u64, u64> = TableDefinition::new("t");
/// fn main() -> Result<(), redb::Error> {
///     let db = Database::create("x.redb")?;
///     let w = db.begin_write()?;
///     {
///         let mut t = w.open_table(T)?;
///         let mut it = t.extract_if(|k, _| k % 2 == 0)?;
///         t.insert(&1, &1)?; // second exclusive borrow while the iterator lives
///         let _ = it.next();
///     }
///     w.commit()?;
///     Ok(())
/// }
/// ```
pub struct C05W2Fail;

/// ```no_run
/// use redb::{Database, TableDefinition};
/// const T: TableDefinition<u64, u64> = TableDefinition::new("t");
/// fn main() -> Result<(), redb::Error> {
///     let db = Database::create("x.redb")?;
///     let w = db.begin_write()?;
///     {
///         let mut t = w.open_table(T)?;
///         let mut it = t.extract_if(|k, _| k % 2 == 0)?;
///         let _ = it.next();
///         drop(it);
///         t.insert(&1, &1)?;
///     }
///     w.commit()?;
///     Ok(())
/// }
/// ```
pub struct C05W2Twin;

/// C16.W2: there is one handle per write transaction: it cannot be duplicated.
/// ```compile_fail,E0599
/// use redb::Database;
/// fn main() -> Result<(), redb::Error> {
///     let db = Database::create("x.redb")?;
///     let w = db.begin_write()?;
///     let w2 = w.clone(); // WriteTransaction is not Clone
///     w.commit()?;
///     w2.commit()?;
///     Ok(())
/// }
/// ```
pub struct C16W2Fail;

/// ```no_run
/// use redb::Database;
/// fn main() -> Result<(), redb::Error> {
///     let db = Database::create("x.redb")?;
///     let w = db.begin_write()?;
///     w.commit()?;
///     Ok(())
/// }
/// ```
pub struct C16W2Twin;
