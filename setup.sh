#!/bin/sh
# Build the fact-extraction driver (nightly, rustc_private, zero cargo deps) from files on disk.
set -e
cd "$(dirname "$0")"
export CARGO_NET_OFFLINE=true
(cd driver && cargo +nightly build --release --offline 2>&1 | tail -3)
test -x driver/target/release/redb-facts
mkdir -p evidence replays
echo "setup ok"
