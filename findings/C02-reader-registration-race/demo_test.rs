// Probe: a reader whose begin_read() straddles a non-durable commit is registered under the previous
// (durable) transaction id but reads the new root. Later non-durable commits then release its pages.
use redb::{Database, Durability, ReadableDatabase, ReadableTable, TableDefinition};
use std::sync::atomic::{AtomicBool, AtomicU64, Ordering};
use std::sync::Arc;
use std::time::{Duration, Instant};

const T: TableDefinition<u64, &[u8]> = TableDefinition::new("t");
const ROWS: u64 = 300;

fn value(generation: u64, key: u64) -> Vec<u8> {
    let mut v = vec![0u8; 600];
    v[..8].copy_from_slice(&generation.to_le_bytes());
    v[8..16].copy_from_slice(&key.to_le_bytes());
    v
}

#[test]
fn reader_straddling_a_non_durable_commit_keeps_its_snapshot() {
    let secs: u64 = std::env::var("PROBE_SECS").ok().and_then(|s| s.parse().ok()).unwrap_or(120);
    let file = tempfile::NamedTempFile::new().unwrap();
    let db = Arc::new(Database::builder().set_cache_size(64 * 1024 * 1024).create(file.path()).unwrap());
    {
        let w = db.begin_write().unwrap();
        {
            let mut t = w.open_table(T).unwrap();
            for k in 0..ROWS {
                t.insert(&k, value(0, k).as_slice()).unwrap();
            }
        }
        w.commit().unwrap();
    }
    let stop = Arc::new(AtomicBool::new(false));
    let generation = Arc::new(AtomicU64::new(0));
    let bad = Arc::new(AtomicU64::new(0));
    let writer = {
        let (db, stop, generation) = (db.clone(), stop.clone(), generation.clone());
        std::thread::spawn(move || {
            let mut g = 1u64;
            while !stop.load(Ordering::Relaxed) {
                let mut w = db.begin_write().unwrap();
                // a durable commit now and then, so that readers register under a durable id
                if g % 7 != 0 {
                    w.set_durability(Durability::None).unwrap();
                }
                {
                    let mut t = w.open_table(T).unwrap();
                    for k in 0..ROWS {
                        t.insert(&k, value(g, k).as_slice()).unwrap();
                    }
                }
                w.commit().unwrap();
                generation.store(g, Ordering::Release);
                g += 1;
            }
        })
    };
    let mut readers = vec![];
    for _ in 0..6 {
        let (db, stop, bad) = (db.clone(), stop.clone(), bad.clone());
        readers.push(std::thread::spawn(move || {
            while !stop.load(Ordering::Relaxed) {
                let r = db.begin_read().unwrap();
                let t = r.open_table(T).unwrap();
                // hold the snapshot across several commits, then read it
                std::thread::sleep(Duration::from_millis(3));
                let outcome = std::panic::catch_unwind(std::panic::AssertUnwindSafe(|| {
                    let mut gen_seen = None;
                    let mut n = 0;
                    for item in t.iter().unwrap() {
                        let (k, v) = item.unwrap();
                        let v = v.value();
                        let g = u64::from_le_bytes(v[..8].try_into().unwrap());
                        let kk = u64::from_le_bytes(v[8..16].try_into().unwrap());
                        assert_eq!(kk, k.value(), "value does not belong to its key");
                        assert_eq!(*gen_seen.get_or_insert(g), g, "mixed generations in one snapshot");
                        n += 1;
                    }
                    assert_eq!(n, ROWS, "rows missing from the snapshot");
                }));
                if outcome.is_err() {
                    bad.fetch_add(1, Ordering::Relaxed);
                    stop.store(true, Ordering::Relaxed);
                }
            }
        }));
    }
    let start = Instant::now();
    while start.elapsed() < Duration::from_secs(secs) && !stop.load(Ordering::Relaxed) {
        std::thread::sleep(Duration::from_millis(200));
    }
    stop.store(true, Ordering::Relaxed);
    let wres = writer.join();
    for r in readers {
        let _ = r.join();
    }
    eprintln!("generations written: {}", generation.load(Ordering::Relaxed));
    assert!(wres.is_ok(), "the writer panicked (a page still held by a reader was released?)");
    assert_eq!(bad.load(Ordering::Relaxed), 0, "a read transaction saw its snapshot change");
}
