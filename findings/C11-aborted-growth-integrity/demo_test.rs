// C11: a healthy database passes check_integrity() with Ok(true), any number of times.
use redb::{Database, ReadableDatabase, ReadableTableMetadata, TableDefinition};

const T: TableDefinition<u64, &[u8]> = TableDefinition::new("t");

#[test]
fn integrity_check_after_an_aborted_transaction_that_grew_the_file() {
    let file = tempfile::NamedTempFile::new().unwrap();
    let mut db = Database::create(file.path()).unwrap();
    {
        let w = db.begin_write().unwrap();
        {
            let mut t = w.open_table(T).unwrap();
            t.insert(&0, [1u8; 100].as_slice()).unwrap();
        }
        w.commit().unwrap();
    }
    assert!(db.check_integrity().unwrap(), "fresh database");
    let len_before = std::fs::metadata(file.path()).unwrap().len();
    {
        // grow the file, then abandon the work
        let w = db.begin_write().unwrap();
        {
            let mut t = w.open_table(T).unwrap();
            let big = vec![7u8; 2 * 1024 * 1024];
            for k in 1..6u64 {
                t.insert(&k, big.as_slice()).unwrap();
            }
        }
        w.abort().unwrap();
    }
    let len_after = std::fs::metadata(file.path()).unwrap().len();
    eprintln!("file length before the aborted transaction: {len_before}, after: {len_after}");
    // nothing was committed: the database is as healthy as before
    let first = db.check_integrity().unwrap();
    let second = db.check_integrity().unwrap();
    let r = db.begin_read().unwrap();
    let t = r.open_table(T).unwrap();
    assert_eq!(t.len().unwrap(), 1);
    assert!(first && second, "check_integrity() after an aborted transaction: first call {first}, second call {second}");
}

// control: a file that was extended behind redb's back is still reported
#[test]
fn external_extension_is_still_reported() {
    let file = tempfile::NamedTempFile::new().unwrap();
    let mut db = Database::create(file.path()).unwrap();
    {
        let w = db.begin_write().unwrap();
        {
            let mut t = w.open_table(T).unwrap();
            t.insert(&0, [1u8; 100].as_slice()).unwrap();
        }
        w.commit().unwrap();
    }
    assert!(db.check_integrity().unwrap());
    let len = std::fs::metadata(file.path()).unwrap().len();
    let f = std::fs::OpenOptions::new().write(true).open(file.path()).unwrap();
    f.set_len(len + 4096 * 256).unwrap();
    drop(f);
    assert!(!db.check_integrity().unwrap(), "an externally extended file must be reported as repaired");
    assert!(db.check_integrity().unwrap());
}
