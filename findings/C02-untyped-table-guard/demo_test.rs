use redb::{Database, ReadableDatabase, ReadableTableMetadata, TableDefinition, TableHandle};

const T: TableDefinition<u64, &[u8]> = TableDefinition::new("t");
const U: TableDefinition<u64, &[u8]> = TableDefinition::new("u");

#[test]
fn untyped_table_stats_frozen_after_read_transaction_dropped() {
    let tmp = tempfile::NamedTempFile::new().unwrap();
    let db = Database::builder().set_cache_size(0).create(tmp.path()).unwrap();
    let w = db.begin_write().unwrap();
    {
        let mut t = w.open_table(T).unwrap();
        for i in 0..2000u64 {
            t.insert(&i, vec![7u8; 200].as_slice()).unwrap();
        }
    }
    w.commit().unwrap();

    let r = db.begin_read().unwrap();
    let untyped = r.open_untyped_table(T).unwrap();
    let before = untyped.stats().unwrap();
    drop(r); // the handle outlives the transaction (it has no lifetime tying it to `r`)

    // churn: delete the table's contents, then reuse the space for differently shaped data
    for round in 0..6u64 {
        let w = db.begin_write().unwrap();
        {
            let mut t = w.open_table(T).unwrap();
            t.retain(|_, _| false).unwrap();
            let mut u = w.open_table(U).unwrap();
            for i in 0..300u64 {
                u.insert(&(round * 1000 + i), vec![round as u8; 3000].as_slice()).unwrap();
            }
        }
        w.commit().unwrap();
    }
    let after = untyped.stats().unwrap();
    assert_eq!(untyped.name(), "t");
    assert_eq!(before.leaf_pages(), after.leaf_pages());
    assert_eq!(before.stored_bytes(), after.stored_bytes());
    assert_eq!(before.tree_height(), after.tree_height());
}
