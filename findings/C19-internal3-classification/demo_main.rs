// C19 demonstration: a file written by the working tree that contains a table whose key/value type
// is a built-in composite (Option<T>, tuple, Vec<T>, [T;N]) cannot be listed/opened by redb 3.0.0.
use redb3::ReadableDatabase as _;
fn main() {
    let tmp = tempfile::NamedTempFile::new().unwrap();
    let path = tmp.path().to_path_buf();
    {
        const T: redb_new::TableDefinition<u64, Option<u64>> = redb_new::TableDefinition::new("t");
        let db = redb_new::Database::create(&path).unwrap();
        let w = db.begin_write().unwrap();
        { let mut t = w.open_table(T).unwrap(); t.insert(&1, &Some(2)).unwrap(); }
        w.commit().unwrap();
    }
    let which = std::env::args().nth(1).unwrap_or_default();
    let r = std::panic::catch_unwind(|| {
        const T3: redb3::TableDefinition<u64, Option<u64>> = redb3::TableDefinition::new("t");
        let db = redb3::Database::open(&path).unwrap();
        let r = db.begin_read().unwrap();
        if which == "list" {
            use redb3::TableHandle;
            let names: Vec<String> = r.list_tables().unwrap().map(|h| h.name().to_string()).collect();
            println!("3.0.0 lists tables: {:?}", names);
        }
        let t = r.open_table(T3).unwrap();
        use redb3::ReadableTable;
        println!("3.0.0 reads: {:?}", t.get(&1).unwrap().map(|v| v.value()));
    });
    match r { Ok(()) => println!("RESULT: readable by 3.0.0"), Err(_) => { println!("RESULT: redb 3.0.0 panicked opening a table written by this tree"); std::process::exit(1) } }
}
