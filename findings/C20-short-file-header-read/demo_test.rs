// C20: redb reads only within the current length of the storage.
// A storage that is shorter than the database header but begins with the magic number.
use redb::backends::InMemoryBackend;
use redb::{Builder, StorageBackend};
use std::io;
use std::sync::{Arc, Mutex};

#[derive(Debug)]
struct Strict {
    inner: InMemoryBackend,
    out_of_range: Arc<Mutex<Vec<String>>>,
}

impl StorageBackend for Strict {
    fn len(&self) -> Result<u64, io::Error> {
        self.inner.len()
    }
    fn read(&self, offset: u64, out: &mut [u8]) -> Result<(), io::Error> {
        let len = self.inner.len()?;
        if offset + out.len() as u64 > len {
            self.out_of_range.lock().unwrap().push(format!("read [{offset}, {}) with len()={len}", offset + out.len() as u64));
            return Err(io::Error::new(io::ErrorKind::UnexpectedEof, "read past the end"));
        }
        self.inner.read(offset, out)
    }
    fn set_len(&self, len: u64) -> Result<(), io::Error> {
        self.inner.set_len(len)
    }
    fn sync_data(&self) -> Result<(), io::Error> {
        self.inner.sync_data()
    }
    fn write(&self, offset: u64, data: &[u8]) -> Result<(), io::Error> {
        let len = self.inner.len()?;
        if offset + data.len() as u64 > len {
            self.out_of_range.lock().unwrap().push(format!("write [{offset}, {}) with len()={len}", offset + data.len() as u64));
        }
        self.inner.write(offset, data)
    }
    fn close(&self) -> Result<(), io::Error> {
        self.inner.close()
    }
}

#[test]
fn storage_shorter_than_the_header_is_not_read_past_its_end() {
    const MAGIC: [u8; 9] = [b'r', b'e', b'd', b'b', 0x1A, 0x0A, 0xA9, 0x0D, 0x0A];
    for total in [9u64, 10, 100, 319] {
        let inner = InMemoryBackend::new();
        inner.set_len(total).unwrap();
        inner.write(0, &MAGIC).unwrap();
        let log = Arc::new(Mutex::new(vec![]));
        let backend = Strict { inner, out_of_range: log.clone() };
        let result = Builder::new().create_with_backend(backend);
        assert!(result.is_err(), "a {total}-byte storage cannot be a database");
        let log = log.lock().unwrap();
        assert!(log.is_empty(), "storage of {total} bytes: redb accessed it outside its length: {log:?}");
    }
}
