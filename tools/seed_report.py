#!/usr/bin/env python3
"""Prints the markdown table of seeded changes for DESIGN.md section 11.6 from seeded/*/meta.json."""
import json, os, glob
V = os.path.dirname(os.path.dirname(os.path.abspath(__file__)))
notes = json.load(open(os.path.join(V, 'seeded', 'strengthening_notes.json')))
rows = []
for d in sorted(glob.glob(os.path.join(V, 'seeded', 'C*'))):
    m = json.load(open(os.path.join(d, 'meta.json')))
    sid = m['id']
    c = m.get('confirmed', {})
    conf = all(c.get(k) for k in ('demo_passes_on_clean_tree', 'patch_applies', 'compiles_default_and_all_features', 'existing_suite_passes_with_change', 'demo_fails_with_change'))
    ch = m.get('checks', {})
    fired = ch.get('rules_fired_per_property', {})
    own = fired.get(m['breaks_property'], [])
    allr = sorted({r for v in fired.values() for r in v if not r.endswith('.internal')})
    first = open(os.path.join(d, 'patch.diff')).read().split('\n')
    files = sorted({l[6:] for l in first if l.startswith('+++ b/')})
    before = notes.get(sid, 'reported without strengthening')
    status = 'missed, then strengthened' if 'MISSED' in before else ('other property only, then shared' if 'but not by' in before else 'caught as built')
    rows.append((sid, m['breaks_property'], ', '.join(f.replace('src/', '') for f in files), 'yes' if conf else 'NO', ', '.join(own) or '-', ', '.join(sorted(ch.get('violating_properties', []))), status))
print('| id | property | files | confirmed | rule(s) firing in its own check | checks raising a violation | history |')
print('|----|----------|-------|-----------|--------------------------------|----------------------------|---------|')
for r in rows:
    print('| ' + ' | '.join(r) + ' |')
st = {}
for r in rows:
    st[r[6]] = st.get(r[6], 0) + 1
print()
print('Totals:', ', '.join('%d %s' % (v, k) for k, v in sorted(st.items())), '(%d changes)' % len(rows))
