#!/usr/bin/env python3
"""Writes the before/after history of every seeded change (seeded/strengthening_notes.json) into its meta.json."""
import json, os, glob
V = os.path.dirname(os.path.dirname(os.path.abspath(__file__)))
notes = json.load(open(os.path.join(V, 'seeded', 'strengthening_notes.json')))
for d in sorted(glob.glob(os.path.join(V, 'seeded', 'C*'))):
    p = os.path.join(d, 'meta.json')
    m = json.load(open(p))
    m['history'] = notes.get(m['id'], 'reported by its own property check as built (no strengthening needed)')
    json.dump(m, open(p, 'w'), indent=1)
print('ok')
