#!/usr/bin/env python3
"""Self-test helper: apply a patch (unified diff, or a python 'sub' spec) to a scratch copy of /repo
outside /repo and /verif, run checks against it, report which rules fire, delete the copy.

usage: mutant.py <patch.diff> <Cxx[,Cyy..]|all> [quick|thorough]
"""
import os, sys, subprocess, tempfile, shutil, json
VERIF = os.path.dirname(os.path.dirname(os.path.abspath(__file__)))


def main():
    patch = os.path.abspath(sys.argv[1])
    props = sys.argv[2]
    tier = sys.argv[3] if len(sys.argv) > 3 else 'quick'
    scratch = tempfile.mkdtemp(prefix='redb-mutant-')
    try:
        subprocess.check_call(['rsync', '-a', '--exclude', 'target', '--exclude', '.git', '/repo/', scratch + '/repo/'])
        r = subprocess.run(['patch', '-p1', '-s', '-d', scratch + '/repo', '-i', patch])
        if r.returncode != 0:
            print('PATCH FAILED')
            return 2
        env = dict(os.environ)
        env['VERIF_REPO'] = scratch + '/repo'
        env['VERIF_OUT'] = scratch + '/out'
        env.pop('VERIF_FACTS_DIR', None)
        rc = 0
        plist = props.split(',') if props != 'all' else ['all']
        for p in plist:
            r = subprocess.run([sys.executable, os.path.join(VERIF, 'engine', 'run.py'), p, tier], env=env, stdout=subprocess.PIPE, stderr=subprocess.STDOUT, text=True)
            print(r.stdout)
            rc = rc or r.returncode
        return rc
    finally:
        shutil.rmtree(scratch, ignore_errors=True)


sys.exit(main())
