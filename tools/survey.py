#!/usr/bin/env python3
"""Coverage survey of the rule tables by single-statement deletion.

For each function named in TARGETS the tool deletes, one at a time, every statement that is a complete
expression statement (calls, assignments, `?;` calls; not `let` bindings that later code needs) in a
scratch copy of /repo outside /repo and /verif, lets the driver extract facts (a deletion that does
not compile is skipped) and runs every check.  It prints, per deletion, which rules fire.  The
deletions no rule reports are the material for triage: read each one and decide whether it removes
behaviour a property depends on (then a rule is missing) or not (logging, statistics, debug checks,
performance only).  The survey never decides a property; it is a development aid, its results are
summarised in DESIGN.md section 11.7 and kept in survey/.

usage: survey.py <out.jsonl> [--jobs N] [--op delete|swallow] [--all-files] [--list] [--rerun-survivors prev.jsonl] [--only file.rs:fn ...]
(--only must come last)
"""
import os, sys, re, json, subprocess, tempfile, shutil, concurrent.futures

VERIF = os.path.dirname(os.path.dirname(os.path.abspath(__file__)))

TARGETS = {
    'src/transactions.rs': ['commit_inner', 'durable_commit', 'non_durable_commit', 'abort_inner', 'restore_savepoint', 'persistent_savepoint',
                            'ephemeral_savepoint', 'delete_persistent_savepoint', 'process_freed_pages', 'store_data_freed_pages',
                            'store_system_freed_pages', 'store_freed_pages', 'allocate_savepoint', 'allocate_read_transaction', 'new',
                            'set_durability', 'set_two_phase_commit', 'set_quick_repair', 'close_table', 'open_table', 'rename_table', 'delete_table',
                            'drop', 'compact_pages', 'apply_savepoint_state_on_commit', 'rollback_savepoint_state'],
    'src/tree_store/page_store/page_manager.rs': ['commit', 'non_durable_commit', 'rollback_uncommitted_writes', 'allocate_helper', 'allocate_helper_retry',
                            'free_helper', 'free', 'free_if_uncommitted', 'grow', 'begin_writable', 'new', 'close', 'drop', 'try_save_allocator_state',
                            'clear_cache_and_reload', 'commit_inner', 'get_page_mut', 'allocate', 'mark_page_allocated', 'end_repair', 'begin_repair',
                            'resize', 'try_shrink', 'write_header', 'repair_primary_corrupted'],
    'src/db.rs': ['do_repair', 'new', 'compact', 'begin_write', 'check_integrity', 'begin_read', 'drop', 'verify_primary_checksums', 'mark_tables',
                  'check_repaired_allocated_pages_table', 'mark_persistent_savepoints', 'allocate_read_transaction'],
    'src/tree_store/page_store/cached_file.rs': ['flush', 'write', 'read', 'flush_write_buffer', 'invalidate_cache', 'invalidate_cache_all', 'resize',
                  'close', 'cancel_pending_write', 'flush_lowest_priority', 'read_direct', 'sync_file', 'check_failure', 'set_len', 'sync_data', 'len'],
    'src/transaction_tracker.rs': None,  # None = every function in the file
    'src/tree_store/page_store/savepoint.rs': ['drop'],
    'src/tree_store/btree.rs': ['finalize_dirty_checksums', 'finalize_dirty_checksums_helper', 'verify_checksum', 'verify_checksum_helper', 'insert',
                  'remove', 'insert_inner', 'remove_inner', 'clear', 'retain_in', 'set_root', 'conditional_free', 'apply_each_page_in_subtree'],
    'src/tree_store/table_tree.rs': None,
    'src/tree_store/page_store/header.rs': None,
}

TARGETS2 = {
    'src/multimap_table.rs': ['insert', 'remove', 'remove_all', 'drop', 'new', 'get', 'len', 'finalize_multimap', 'close'],
    'src/table.rs': ['insert', 'insert_reserve', 'remove', 'retain_in_bounds', 'extract_in_bounds', 'pop_first', 'pop_last', 'get_mut', 'drop'],
    'src/tree_store/multimap_btree.rs': None,
    'src/tree_store/page_store/savepoint.rs': None,
    'src/tree_store/page_store/region.rs': None,
    'src/tree_store/page_store/buddy_allocator.rs': None,
    'src/tree_store/page_store/base.rs': None,
    'src/tree_store/extract_if.rs': None,
    'src/tree_store/btree.rs': None,
    'src/tree_store/page_store/page_manager.rs': ['get_page', 'get_page_extended', 'record_unpersisted_allocations', 'unpersisted', 'free_if_unpersisted', 'process_unpersisted_data_freed',
                                                  'begin_repair', 'end_repair', 'load_allocator_state', 'reserve_allocator_state', 'is_valid_allocator_state', 'clear_recovery_required',
                                                  'repair_primary_corrupted', 'take_allocated_since_commit', 'rollback_all', 'uncommitted', 'conditional_free', 'free_if_uncommitted',
                                                  'allocate_lowest', 'allocate_helper_retry', 'resize_to', 'get_last_durable_transaction_id', 'storage_failure', 'check_io_errors'],
    'src/db.rs': ['begin_read', 'allocate_read_transaction', 'rebuild_allocator_state', 'primary_verifies', 'drain_pending_free_pages', 'open', 'create', 'create_with_backend', 'create_file',
                  'begin_write_with_allocation_policy', 'start_write_transaction', 'end_write_transaction', 'close', 'new_read_only', 'cache_stats'],
    'src/tree_store/btree_mutator.rs': ['insert', 'delete', 'finish_deletion', 'delete_leaf_helper', 'delete_branch_helper', 'replace_branch_child', 'conditional_free', 'finalize_branch_builder',
                                        'delete_leaf_at_position', 'delete_leaf_indexes'],
    'src/tree_store/btree_base.rs': ['drop', 'close'],
}

STMT_START = re.compile(r'^\s+(?!let\b|//|#|use\b|return\b|fn\b|pub\b|impl\b|else\b|\}|\{|match\b|if\b|for\b|while\b|loop\b|break\b|continue\b|debug_assert|assert|debug!|info!|warn!|trace!|error!|unsafe\b|Ok\(|Err\()[A-Za-z_\*\(]')


def fn_extents(lines):
    """(name, start, end) of every fn body outside #[cfg(test)] modules, by brace matching."""
    out = []
    n = len(lines)
    i = 0
    test_from = None
    for k, l in enumerate(lines):
        if l.strip().startswith('#[cfg(test)]') and k + 1 < n and 'mod ' in lines[k + 1]:
            test_from = k
            break
    limit = test_from if test_from is not None else n
    while i < limit:
        m = re.match(r'^\s*(?:pub(?:\([a-z]+\))?\s+)?(?:const\s+)?(?:unsafe\s+)?fn\s+([A-Za-z_0-9]+)', lines[i])
        if not m:
            i += 1
            continue
        # find opening brace of the body
        j = i
        depth = 0
        opened = False
        while j < limit:
            for ch in lines[j]:
                if ch == '{':
                    depth += 1
                    opened = True
                elif ch == '}':
                    depth -= 1
            if opened and depth == 0:
                break
            if not opened and lines[j].rstrip().endswith(';'):
                break  # declaration without body
            j += 1
        if opened:
            out.append((m.group(1), i, j))
        i += 1  # nested fns are found too
    return out


def statements(lines, start, end):
    """[(first, last)] line ranges of deletable expression statements in lines[start..end]."""
    out = []
    i = start + 1
    while i < end:
        l = lines[i]
        if STMT_START.match(l):
            depth = 0
            j = i
            ok = False
            while j < end:
                s = re.sub(r'"(?:[^"\\]|\\.)*"', '""', lines[j])
                s = s.split('//')[0]
                for ch in s:
                    if ch in '([{':
                        depth += 1
                    elif ch in ')]}':
                        depth -= 1
                if depth < 0:
                    break
                if depth == 0:
                    if s.rstrip().endswith(';'):
                        ok = True
                    break
                j += 1
            if ok and j - i <= 12:
                out.append((i, j))
                i = j + 1
                continue
        i += 1
    return out


OP = 'delete'


def run_one(job):
    rel, fname, a, b, text = job
    scratch = tempfile.mkdtemp(prefix='redb-survey-')
    try:
        subprocess.check_call(['rsync', '-a', '--exclude', 'target', '--exclude', '.git', '/repo/', scratch + '/repo/'])
        p = os.path.join(scratch, 'repo', rel)
        lines = open(p).read().split('\n')
        if OP == 'swallow':
            # `expr?;` -> `let _ = expr;` : the error is silently dropped
            last = lines[b].rstrip()
            assert last.endswith('?;'), last
            lines[b] = last[:-2] + ';'
            ind = len(lines[a]) - len(lines[a].lstrip())
            lines[a] = lines[a][:ind] + 'let _ = ' + lines[a][ind:]
        else:
            del lines[a:b + 1]
        open(p, 'w').write('\n'.join(lines))
        env = dict(os.environ)
        env['VERIF_REPO'] = scratch + '/repo'
        env['VERIF_OUT'] = scratch + '/out'
        env['VERIF_TMP'] = scratch
        env.pop('VERIF_FACTS_DIR', None)
        r = subprocess.run([sys.executable, os.path.join(VERIF, 'engine', 'run.py'), 'all', 'quick'], env=env, stdout=subprocess.PIPE, stderr=subprocess.STDOUT, text=True)
        out = r.stdout
        if 'fact extraction failed' in out:
            return {'file': rel, 'fn': fname, 'line': a + 1, 'text': text, 'compiles': False}
        fired = {}
        cur = None
        for line in out.splitlines():
            m = re.match(r'== (C\d+) ', line)
            if m:
                cur = m.group(1)
            m = re.match(r'\s+\[(C\d+\.[A-Za-z0-9]+)', line)
            if m and cur:
                fired.setdefault(cur, [])
                if m.group(1) not in fired[cur]:
                    fired[cur].append(m.group(1))
        props = sorted(set(re.findall(r'VIOLATION property=(C\d+)', out)))
        return {'file': rel, 'fn': fname, 'line': a + 1, 'text': text, 'compiles': True, 'violating': props, 'fired': fired}
    finally:
        shutil.rmtree(scratch, ignore_errors=True)


def main():
    global OP
    out = sys.argv[1]
    jobs_n = 3
    only = None
    a = sys.argv[2:]
    if '--jobs' in a:
        jobs_n = int(a[a.index('--jobs') + 1])
    if '--op' in a:
        OP = a[a.index('--op') + 1]
    targets = TARGETS2 if '--targets2' in a else TARGETS
    if OP == 'swallow' or '--all-files' in a:
        targets = {}
        for dp, _dn, fns_ in os.walk('/repo/src'):
            for fn_ in fns_:
                if fn_.endswith('.rs'):
                    targets[os.path.relpath(os.path.join(dp, fn_), '/repo')] = None
    if '--only' in a:
        only = a[a.index('--only') + 1:]
    done = set()
    if os.path.exists(out):
        for l in open(out):
            d = json.loads(l)
            done.add((d['file'], d['fn'], d['text']))
    jobs = []
    for rel, fns in sorted(targets.items()):
        lines = open(os.path.join('/repo', rel)).read().split('\n')
        for (name, s, e) in fn_extents(lines):
            if fns is not None and name not in fns:
                continue
            if only and not any(o == '%s:%s' % (os.path.basename(rel), name) or o == os.path.basename(rel) for o in only):
                continue
            for (x, y) in statements(lines, s, e):
                text = ' '.join(t.strip() for t in lines[x:y + 1])[:200]
                if OP == 'swallow' and not lines[y].rstrip().endswith(')?;'):
                    continue
                if (rel, name, text) in done:
                    continue
                jobs.append((rel, name, x, y, text))
    if '--rerun-survivors' in a:
        prev = [json.loads(l) for l in open(a[a.index('--rerun-survivors') + 1])]
        want = {(d['file'], d['fn'], d['text']) for d in prev if d['compiles'] and not d['violating']}
        jobs = [j for j in jobs if (j[0], j[1], j[4]) in want]
    # nested fn extents repeat statements: dedupe by position
    seen = set()
    uniq = []
    for j in jobs:
        k = (j[0], j[2])
        if k in seen:
            continue
        seen.add(k)
        uniq.append(j)
    print('%d deletions to try' % len(uniq), flush=True)
    if '--list' in a:
        for j in uniq:
            print(j[0], j[1], j[2] + 1, j[4])
        return 0
    with open(out, 'a') as fh, concurrent.futures.ThreadPoolExecutor(jobs_n) as ex:
        for r in ex.map(run_one, uniq):
            fh.write(json.dumps(r) + '\n')
            fh.flush()
            tag = 'nocompile' if not r['compiles'] else (','.join(r['violating']) or 'SURVIVES')
            print('%s:%s:%d %-60s %s' % (os.path.basename(r['file']), r['fn'], r['line'], r['text'][:60], tag), flush=True)
    return 0


sys.exit(main())
