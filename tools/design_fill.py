#!/usr/bin/env python3
"""Fills the generated numbers and the seeded-change table of DESIGN.md section 11 (between
<!--NAME--> ... <!--/NAME--> markers) from mutants/catalog.json, seeded/*/meta.json and survey/*.jsonl."""
import json, os, re, glob, subprocess, sys
V = os.path.dirname(os.path.dirname(os.path.abspath(__file__)))
vals = {}
cat = json.load(open(os.path.join(V, 'mutants', 'catalog.json')))
vals['CATALOG'] = str(len(cat))
vals['SILENT'] = str(sum(1 for m in cat if m.get('silent')))
out = subprocess.check_output([sys.executable, os.path.join(V, 'tools', 'seed_report.py')], text=True)
table, totals = out.rsplit('\nTotals:', 1)
vals['SEEDTABLE'] = '\n' + table.strip() + '\n\nTotals:' + totals.strip() + '\n'
m = re.search(r'(\d+) caught as built', totals)
vals['ASBUILT'] = m.group(1) if m else '?'
m = re.search(r'(\d+) missed, then strengthened', totals)
vals['MISSED'] = m.group(1) if m else '?'
m = re.search(r'(\d+) other property only, then shared', totals)
vals['SHARED'] = m.group(1) if m else '?'


def remain(name):
    p = os.path.join(V, 'survey', name)
    if not os.path.exists(p):
        return '?'
    rows = [json.loads(l) for l in open(p)]
    return str(sum(1 for r in rows if r['compiles'] and not r['violating']))


vals['DELREMAIN'] = remain('deletions_rerun2.jsonl' if os.path.exists(os.path.join(V, 'survey', 'deletions_rerun2.jsonl')) else 'deletions_rerun.jsonl')
vals['SWREMAIN'] = remain('swallow_rerun.jsonl')
if os.path.exists(os.path.join(V, 'survey', 'deletions2_rerun2.jsonl')):
    vals['DEL2REMAIN'] = remain('deletions2_rerun2.jsonl')
p = os.path.join(V, 'DESIGN.md')
s = open(p).read()
for k, v in vals.items():
    s, n = re.subn(r'<!--%s-->.*?<!--/%s-->' % (k, k), lambda _m: '<!--%s-->%s<!--/%s-->' % (k, v, k), s, flags=re.S)
    if n == 0:
        print('marker missing:', k)
open(p, 'w').write(s)
print({k: (v if len(v) < 20 else '...') for k, v in vals.items()})
