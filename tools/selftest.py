#!/usr/bin/env python3
"""Self-test of the checker (DESIGN.md section 8): for every entry of mutants/catalog.json make a
scratch copy of /repo (outside /repo and /verif), apply the one-instance change, run the named
property checks against it and assert that the expected rule reports a violation. The scratch copy
and its build output are removed as soon as the entry is done.

usage: selftest.py [-j N] [id-substring ...]
"""
import os, sys, json, subprocess, tempfile, shutil, concurrent.futures, re
VERIF = os.path.dirname(os.path.dirname(os.path.abspath(__file__)))


def run_one(m):
    scratch = tempfile.mkdtemp(prefix='redb-mut-')
    try:
        subprocess.check_call(['rsync', '-a', '--exclude', 'target', '--exclude', '.git', '/repo/', scratch + '/repo/'])
        if 'diff' in m:
            r = subprocess.run(['patch', '-p1', '-s', '-d', scratch + '/repo', '-i', os.path.join(VERIF, m['diff'])])
            if r.returncode != 0:
                return m, 'PATCH-FAILED', ''
        else:
            for e in m['edits']:
                p = os.path.join(scratch, 'repo', e['file'])
                s = open(p).read()
                if s.count(e['old']) != e.get('count', 1):
                    return m, 'EDIT-NOT-APPLICABLE (%d matches)' % s.count(e['old']), ''
                s = s.replace(e['old'], e['new'])
                open(p, 'w').write(s)
        env = dict(os.environ)
        env['VERIF_REPO'] = scratch + '/repo'
        env['VERIF_OUT'] = scratch + '/out'
        env.pop('VERIF_FACTS_DIR', None)
        out = ''
        for p in m['props']:
            r = subprocess.run([sys.executable, os.path.join(VERIF, 'engine', 'run.py'), p, m.get('tier', 'quick')], env=env, stdout=subprocess.PIPE, stderr=subprocess.STDOUT, text=True)
            out += r.stdout
        if 'fact extraction failed' in out:
            return m, 'DOES-NOT-COMPILE', out
        fired = set(re.findall(r'\[(C\d+\.[A-Za-z0-9]+)', out))
        exp = set(m.get('expect', []))
        if m.get('silent'):
            return m, ('OK-silent' if 'VIOLATION' not in out else 'FALSE-ALARM'), out
        if exp & fired:
            return m, 'CAUGHT by %s' % sorted(exp & fired), out
        if 'VIOLATION' in out:
            return m, 'CAUGHT-BY-OTHER %s (expected %s)' % (sorted(fired), sorted(exp)), out
        return m, 'MISSED', out
    finally:
        shutil.rmtree(scratch, ignore_errors=True)


def main():
    args = sys.argv[1:]
    j = 8
    if args and args[0] == '-j':
        j = int(args[1])
        args = args[2:]
    verbose = False
    if args and args[0] == '-v':
        verbose = True
        args = args[1:]
    cat = json.load(open(os.path.join(VERIF, 'mutants', 'catalog.json')))
    if args:
        cat = [m for m in cat if any(a in m['id'] for a in args)]
    bad = 0
    with concurrent.futures.ThreadPoolExecutor(max_workers=j) as ex:
        for m, verdict, out in ex.map(run_one, cat):
            print('%-44s %s' % (m['id'], verdict))
            if verbose or verdict.startswith(('MISSED', 'FALSE', 'PATCH', 'EDIT', 'DOES')):
                print('\n'.join('      ' + l for l in out.splitlines()[:12]))
            if not (verdict.startswith('CAUGHT by') or verdict.startswith('OK-silent')):
                bad += 1
    print('%d entries, %d not as expected' % (len(cat), bad))
    return 1 if bad else 0


sys.exit(main())
