#!/usr/bin/env python3
"""Confirm an independently produced breaking change and run the checks against it.

usage: seedtest.py <id> <property> <change.diff> <demo.rs> [--needs "text"] [--skip-confirm]

Steps (all in a scratch git worktree of /repo outside /repo and /verif, removed afterwards):
  1. demo passes on the clean tree
  2. change applies; default and --all-features builds compile
  3. the whole existing suite passes with the change (demo excluded)
  4. demo fails with the change
  5. every claimed check (quick tier) is run against the changed tree; which rules fire is recorded
Result: /verif/seeded/<id>/{patch.diff, demo.rs, meta.json}
"""
import os, sys, json, subprocess, shutil, re, time

VERIF = os.path.dirname(os.path.dirname(os.path.abspath(__file__)))


def sh(cmd, cwd=None, env=None, timeout=3600):
    p = subprocess.run(cmd, cwd=cwd, env=env, shell=isinstance(cmd, str), stdout=subprocess.PIPE, stderr=subprocess.STDOUT, text=True, timeout=timeout)
    return p.returncode, p.stdout


def main():
    a = sys.argv[1:]
    sid, prop, diff, demo = a[0], a[1], os.path.abspath(a[2]), os.path.abspath(a[3])
    needs = ''
    skip = '--skip-confirm' in a
    if '--needs' in a:
        needs = a[a.index('--needs') + 1]
    reuse = None
    if '--worktree' in a:
        reuse = a[a.index('--worktree') + 1]
    if reuse:
        # an existing scratch worktree whose target/ already holds the built dependencies
        wt = reuse
        rc, out = sh('git checkout -- src tests && git status --short src tests', cwd=wt)
        assert out.strip() == '', 'worktree not clean: ' + out
    else:
        wt = '/tmp/confirm-%s' % sid
        sh(['git', '-C', '/repo', 'worktree', 'remove', '--force', wt])
        shutil.rmtree(wt, ignore_errors=True)
        rc, out = sh(['git', '-C', '/repo', 'worktree', 'add', '-q', wt, 'HEAD'])
        assert rc == 0, out
    env = dict(os.environ)
    env['CARGO_TARGET_DIR'] = wt + '/target'
    env['CARGO_NET_OFFLINE'] = 'true'
    meta = {'id': sid, 'breaks_property': prop, 'needs_to_manifest': needs, 'ran': [], 'confirmed': {}}
    prev = os.path.join(VERIF, 'seeded', sid, 'meta.json')
    if skip and os.path.exists(prev):
        # re-run of the checks only: keep the confirmation record
        old_meta = json.load(open(prev))
        meta['confirmed'] = old_meta.get('confirmed', {})
        meta['ran'] = [r for r in old_meta.get('ran', []) if not r.startswith('VERIF_REPO=')]
        meta['needs_to_manifest'] = needs or old_meta.get('needs_to_manifest', '')
        if 'checks_before_strengthening' in old_meta:
            meta['checks_before_strengthening'] = old_meta['checks_before_strengthening']
    try:
        shutil.copy(demo, wt + '/tests/seed_demo.rs')
        if not skip:
            rc, out = sh('cargo test --offline --test seed_demo 2>&1 | tail -15', cwd=wt, env=env)
            ok_clean = 'test result: ok' in out and 'FAILED' not in out
            meta['confirmed']['demo_passes_on_clean_tree'] = ok_clean
            meta['ran'].append('clean tree: cargo test --offline --test seed_demo -> %s' % ('pass' if ok_clean else 'FAIL'))
            if not ok_clean:
                print(out)
        rc, out = sh(['git', 'apply', diff], cwd=wt)
        meta['confirmed']['patch_applies'] = rc == 0
        if rc != 0:
            print('PATCH DOES NOT APPLY', out)
            return 2
        if not skip:
            rc, out = sh('cargo build --offline 2>&1 | tail -3 && cargo build --offline --all-features 2>&1 | tail -3', cwd=wt, env=env)
            okb = out.count('Finished') >= 2
            meta['confirmed']['compiles_default_and_all_features'] = okb
            meta['ran'].append('changed tree: cargo build --offline [--all-features] -> %s' % ('ok' if okb else 'FAIL'))
            # the suite is run without the demo file present: under --workspace feature unification a demo
            # written against the default feature set may not even compile, which would fail the build
            os.remove(wt + '/tests/seed_demo.rs')
            rc, out = sh("cargo nextest run --workspace --offline --no-fail-fast --build-jobs 8 --test-threads 8 2>&1 | tail -6", cwd=wt, env=env)
            shutil.copy(demo, wt + '/tests/seed_demo.rs')
            m = re.search(r'(\d+) tests run: (\d+) passed', out)
            oks = bool(m) and m.group(1) == m.group(2) and 'failed' not in out.split('Summary')[-1]
            meta['confirmed']['existing_suite_passes_with_change'] = oks
            meta['ran'].append('changed tree: cargo nextest run --workspace --offline (demo excluded) -> %s' % (m.group(0) if m else out[-200:]))
            rc, out = sh('cargo test --offline --test seed_demo 2>&1 | tail -15', cwd=wt, env=env)
            failed = 'FAILED' in out or 'test result: FAILED' in out or 'panicked' in out
            meta['confirmed']['demo_fails_with_change'] = failed
            meta['ran'].append('changed tree: cargo test --offline --test seed_demo -> %s' % ('fails (as required)' if failed else 'PASSES'))
        os.remove(wt + '/tests/seed_demo.rs')
        if not reuse:
            shutil.rmtree(wt + '/target', ignore_errors=True)
        # checks against the changed tree
        env2 = dict(os.environ)
        env2['VERIF_REPO'] = wt
        env2['VERIF_OUT'] = wt + '/verif-out'
        env2.pop('VERIF_FACTS_DIR', None)
        rc, out = sh([sys.executable, os.path.join(VERIF, 'engine', 'run.py'), 'all', 'quick'], env=env2)
        fired = {}
        cur = None
        for line in out.splitlines():
            m = re.match(r'== (C\d+) ', line)
            if m:
                cur = m.group(1)
            m = re.match(r'\s+\[(C\d+\.[A-Za-z0-9]+)', line)
            if m and cur:
                fired.setdefault(cur, [])
                if m.group(1) not in fired[cur]:
                    fired[cur].append(m.group(1))
        viol_props = sorted(set(re.findall(r'VIOLATION property=(C\d+)', out)))
        meta['checks'] = {'violating_properties': viol_props, 'rules_fired_per_property': fired,
                          'caught_by_its_property_check': prop in viol_props, 'caught_by_any_check': bool(viol_props)}
        meta['ran'].append('VERIF_REPO=<changed tree> ./check all quick -> VIOLATION for %s' % (viol_props or 'none'))
        detail = [l for l in out.splitlines() if l.strip().startswith('[')][:12]
        meta['checks']['first_reports'] = [d.strip()[:300] for d in detail]
    finally:
        if reuse:
            sh('git checkout -- src tests; rm -f tests/seed_demo.rs; rm -rf verif-out', cwd=wt)
        else:
            sh(['git', '-C', '/repo', 'worktree', 'remove', '--force', wt])
            shutil.rmtree(wt, ignore_errors=True)
    notes_p = os.path.join(VERIF, 'seeded', 'strengthening_notes.json')
    if os.path.exists(notes_p):
        meta['history'] = json.load(open(notes_p)).get(sid, 'reported by its own property check as built (no strengthening needed)')
    d = os.path.join(VERIF, 'seeded', sid)
    os.makedirs(d, exist_ok=True)
    if os.path.abspath(diff) != os.path.join(d, 'patch.diff'):
        shutil.copy(diff, os.path.join(d, 'patch.diff'))
    if os.path.abspath(demo) != os.path.join(d, 'demo.rs'):
        shutil.copy(demo, os.path.join(d, 'demo.rs'))
    json.dump(meta, open(os.path.join(d, 'meta.json'), 'w'), indent=1)
    print(json.dumps({k: meta[k] for k in ('id', 'confirmed', 'checks')}, indent=1)[:2500])
    return 0


sys.exit(main())
