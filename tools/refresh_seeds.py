#!/usr/bin/env python3
"""Re-runs `./check all quick` against every seeded change (scratch worktree of /repo HEAD, removed
afterwards) and rewrites the `checks` part of seeded/<id>/meta.json; the confirmation record is kept.
usage: refresh_seeds.py [-j N] [id ...]"""
import os, sys, json, glob, subprocess, concurrent.futures
V = os.path.dirname(os.path.dirname(os.path.abspath(__file__)))


def one(d):
    sid = os.path.basename(d)
    m = json.load(open(os.path.join(d, 'meta.json')))
    for attempt in range(3):
        r = subprocess.run([sys.executable, os.path.join(V, 'tools', 'seedtest.py'), sid, m['breaks_property'], os.path.join(d, 'patch.diff'), os.path.join(d, 'demo.rs'), '--skip-confirm'],
                           stdout=subprocess.PIPE, stderr=subprocess.STDOUT, text=True)
        if r.returncode == 0:
            break
    m2 = json.load(open(os.path.join(d, 'meta.json')))
    return sid, r.returncode, m2.get('checks', {}).get('caught_by_its_property_check'), m2.get('checks', {}).get('violating_properties')


def main():
    a = sys.argv[1:]
    j = 4
    if a and a[0] == '-j':
        j = int(a[1]); a = a[2:]
    ds = sorted(glob.glob(os.path.join(V, 'seeded', 'C*')))
    if a:
        ds = [d for d in ds if os.path.basename(d) in a]
    bad = 0
    with concurrent.futures.ThreadPoolExecutor(j) as ex:
        for sid, rc, own, props in ex.map(one, ds):
            print('%-8s rc=%s own=%s %s' % (sid, rc, own, props), flush=True)
            if rc != 0 or not own:
                bad += 1
    print('%d seeds, %d not reported by their own property check' % (len(ds), bad))
    return 1 if bad else 0


sys.exit(main())
