#!/usr/bin/env python3
"""Regenerates MANIFEST.json from the rule modules present in engine/rules and the tables below."""
import json, os, glob, sys, importlib
HERE = os.path.dirname(os.path.abspath(__file__))
VERIF = os.path.dirname(HERE)
sys.path.insert(0, os.path.join(VERIF, 'engine'))

NA = {
    'C04': 'Ordered-map equivalence of arbitrary operation sequences depends on byte-exact fill levels, key bytes and split/merge arithmetic; no static abstraction in reach bounds tree contents (its copy-on-write mechanism is decided under C01.R5/C02).',
    'C09': 'Multimap set semantics and inline<->subtree thresholds are value-dependent (entry counts, half-page byte sizes); its structural mechanisms are decided under C10.R3/C12.R1 (subtree checksums) and C06.R7 (release of subtree pages).',
    'C15': 'Order isomorphism, round-trip and separator bounds quantify over all values of each key type; deciding them means enumerating or solving over encodings, which is a different technique family.',
    'C18': 'Cursor/gap equivalence with a sorted-map cursor over all contents and move sequences is value-dependent; its only structural clause (poison on a failed splice) is decided as C05.R4.',
}
PENDING = 'claimed in DESIGN.md; rule table not yet implemented in this commit'

TECH = 'custom rustc_private MIR analysis (dominance/path-cut, who-may-call, lock liveness, arg-flow, type walk) + compile_fail witnesses'


def main():
    props = [json.loads(l) for l in open(os.path.join(VERIF, 'properties.jsonl'))]
    checks = []
    na = []
    for p in props:
        pid = p['id']
        modp = os.path.join(VERIF, 'engine', 'rules', pid.lower() + '.py')
        if pid in NA:
            na.append({'property_id': pid, 'reason': NA[pid]})
            continue
        if not os.path.exists(modp):
            na.append({'property_id': pid, 'reason': PENDING})
            continue
        mod = importlib.import_module('rules.' + pid.lower())
        doc = getattr(mod, 'DOC', {})
        checks.append({
            'property_id': pid,
            'quick_cmd': './check %s quick' % pid,
            'thorough_cmd': './check %s thorough' % pid,
            'evidence_file': '/verif/evidence/%s.json' % pid,
            'replay_cmd_template': 'cat {path}; ./check %s quick' % pid,
            'engine': 'mir-rules',
            'level_claimed': {
                'category': 'other',
                'text': doc.get('level_text', 'Static decision of the structural clauses listed in DESIGN.md section 5 for %s on every path of every analysed build configuration (quick: default and all-features builds; thorough: default, no-debug-assertions, all-features, no_std). The behavioural statement as a whole is not decided; the undecided clauses are listed in the evidence.' % pid),
                'design_ref': 'DESIGN.md section 5, %s' % pid,
            },
            'level_note': doc.get('level_note', 'Trusted base: rustc nightly MIR construction and callee resolution; the anchor / who-may-call tables in engine/rules (each confirmed by reading the code); canary fixtures run on every check. Not executed: redb itself.'),
            'technique': doc.get('technique', TECH),
        })
    m = {
        'version': 1,
        'setup_cmd': './setup.sh',
        'hooks': {
            'guard': 'none',
            'enable': 'no hooks: static analysis reads the unmodified source through a rustc_private driver',
            'baseline_off_cmd': 'cd /repo && cargo test --workspace --no-fail-fast --offline',
            'source_commits': [],
            'add_only': True,
        },
        'engines': [
            {'name': 'mir-rules', 'path': 'engine/', 'serves_properties': [c['property_id'] for c in checks],
             'kind_free_text': 'rustc_private fact extractor (driver/) + Python rule engine over MIR CFGs, call graph, lock liveness, type graph'},
        ],
        'checks': checks,
        'not_applicable': na,
        'notes': 'Technique family: static analysis only. See DESIGN.md. known_findings.json lists triaged genuine findings.',
    }
    with open(os.path.join(VERIF, 'MANIFEST.json'), 'w') as f:
        json.dump(m, f, indent=1)
    print('claimed', [c['property_id'] for c in checks], 'n/a', [n['property_id'] for n in na])


main()
