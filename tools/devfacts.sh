#!/bin/sh
# developer aid: (re)extract facts of /repo for the given configs into /tmp/facts-dev (plus V3 = redb 3.0.0)
set -e
T=/tmp/facts-dev; mkdir -p $T
SR=$(rustc +nightly --print sysroot)/lib
for cfg in "$@"; do
  rm -rf $T/facts $T/target; mkdir -p $T/facts
  case $cfg in
    D) ARGS=""; RF="";; R) ARGS=""; RF="-Cdebug-assertions=off";; A) ARGS="--all-features"; RF="";;
    N) ARGS="--no-default-features --features experimental-api-5"; RF="-Cpanic=abort";;
    V3) (cd /verif/compat3 && cp /repo/Cargo.lock . && LD_LIBRARY_PATH=$SR RUSTFLAGS="-Zmir-opt-level=0 -Awarnings" RUSTC_WRAPPER=/verif/driver/target/release/redb-facts REDB_FACTS_OUT=$T/facts REDB_FACTS_PKG=redb REDB_FACTS_VER=3.0.0 CARGO_TARGET_DIR=$T/target CARGO_NET_OFFLINE=true cargo +nightly check --offline 2>&1 | tail -1); mv $T/facts/*.json $T/V3.json; rm -rf $T/target; continue;;
  esac
  (cd /repo && LD_LIBRARY_PATH=$SR RUSTFLAGS="-Zmir-opt-level=0 -Awarnings $RF" RUSTC_WORKSPACE_WRAPPER=/verif/driver/target/release/redb-facts REDB_FACTS_OUT=$T/facts CARGO_TARGET_DIR=$T/target CARGO_NET_OFFLINE=true cargo +nightly check --offline --lib -p redb@4.2.0 $ARGS 2>&1 | tail -1)
  mv $T/facts/*.json $T/$cfg.json; rm -rf $T/target
done
