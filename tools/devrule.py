import sys, importlib
sys.path.insert(0,'/verif/engine')
import core, rulekit
mod, fn = sys.argv[1], sys.argv[2]
cfgs = sys.argv[3:] or ['D','A']
m = importlib.import_module('rules.'+mod)
for cfg in cfgs:
    F = core.Facts('/tmp/facts-dev/%s.json' % cfg)
    ctx = rulekit.Ctx(F, cfg, 'DEV')
    getattr(m, fn)(ctx)
    print(cfg, ctx.obligations, ctx.discharged, len(ctx.violations))
    for v in ctx.violations: print('  ', v.text()[:400])
