//! Canary fixtures: one conforming (`*_good`) and one violating (`*_bad`) example per rule
//! primitive of the engine. Every check run analyses this crate with the same driver binary and
//! asserts that exactly the violating ones are flagged, so a primitive that silently stops
//! matching (driver change, MIR shape change) cannot pass forever on nothing.
#![allow(dead_code, clippy::all)]
use std::sync::Mutex;

#[derive(Debug)]
pub enum E {
    Storage,
    Other,
}

pub struct Dev {
    pub dirty: bool,
    pub lock: Mutex<u32>,
    pub failed: std::sync::atomic::AtomicBool,
}

impl Dev {
    #[inline(never)]
    pub fn write(&self) -> Result<(), E> {
        Ok(())
    }
    #[inline(never)]
    pub fn flush(&self) -> Result<(), E> {
        Ok(())
    }
    #[inline(never)]
    pub fn publish(&self) {}
    #[inline(never)]
    pub fn check(&self) -> bool {
        self.dirty
    }
    #[inline(never)]
    pub fn mutate(&self) {}
    #[inline(never)]
    pub fn poison(&self) {}
    #[inline(never)]
    pub fn horizon(&self) -> u64 {
        1
    }
    #[inline(never)]
    pub fn free_until(&self, _h: u64) {}
    #[inline(never)]
    pub fn inner(&self) -> Result<(), E> {
        Ok(())
    }
}

// ---- P2 ORDER / MUST-PASS
pub fn order_good(d: &Dev) -> Result<(), E> {
    d.write()?;
    d.flush()?;
    d.publish();
    Ok(())
}
pub fn order_bad(d: &Dev) -> Result<(), E> {
    d.write()?;
    d.publish();
    d.flush()?;
    Ok(())
}
pub fn mustpass_good(d: &Dev, c: bool) -> Result<(), E> {
    d.write()?;
    if c {
        d.mutate();
    }
    d.flush()?;
    Ok(())
}
pub fn mustpass_bad(d: &Dev, c: bool) -> Result<(), E> {
    d.write()?;
    if c {
        d.flush()?;
    }
    Ok(())
}
// success edge: publish only if flush returned Ok
pub fn after_success_good(d: &Dev) -> Result<(), E> {
    d.flush()?;
    d.publish();
    Ok(())
}
pub fn after_success_bad(d: &Dev) -> Result<(), E> {
    let r = d.flush();
    d.publish();
    r
}

// ---- P1 GUARD
pub fn guard_good(d: &Dev) {
    if d.check() {
        d.mutate();
    }
}
pub fn guard_bad(d: &Dev, x: bool) {
    if d.check() || x {
        d.mutate();
    }
}
pub fn guard_assert_good(d: &Dev) {
    assert!(d.check());
    d.mutate();
}
pub fn guard_early_return_good(d: &Dev) {
    if !d.check() {
        return;
    }
    d.mutate();
}
// materialised conditions: `matches!` and `&&` used as values
pub fn guard_matches_good(d: &Dev) -> Result<(), E> {
    let result = d.inner();
    if matches!(result, Err(E::Storage)) {
        d.poison();
    }
    result
}
pub fn guard_matches_bad(d: &Dev, x: bool) -> Result<(), E> {
    let result = d.inner();
    if matches!(result, Err(E::Storage)) || x {
        d.poison();
    }
    result
}
pub fn guard_andand_good(d: &Dev, a: bool) {
    let both = a && d.check();
    if both {
        d.mutate();
    }
}
pub fn guard_andand_bad(d: &Dev, a: bool) {
    let either = a || d.check();
    if either {
        d.mutate();
    }
}
pub fn guard_is_err_good(d: &Dev) -> Result<(), E> {
    let result = d.inner();
    if result.is_err() {
        d.poison();
    }
    result
}
pub fn guard_atomic_good(d: &Dev) {
    if !d.failed.load(std::sync::atomic::Ordering::Acquire) {
        d.mutate();
    }
}
pub fn guard_flag_out_param(d: &Dev) {
    let mut poisoned = false;
    set_flag(&mut poisoned);
    if poisoned {
        d.poison();
    }
}
#[inline(never)]
fn set_flag(f: &mut bool) {
    *f = true;
}

// correlated tests of one immutable bool
pub fn correlated_good(d: &Dev, read_only: bool) -> Result<(), E> {
    let needs = d.check();
    if needs && read_only {
        return Err(E::Other);
    }
    if needs {
        d.mutate();
    }
    Ok(())
}
pub fn correlated_bad(d: &Dev, read_only: bool) -> Result<(), E> {
    let needs = d.check();
    if needs && read_only {
        return Err(E::Other);
    }
    let other = d.horizon() > 3;
    if other {
        d.mutate();
    }
    Ok(())
}

// ---- P6 DISCARD
pub fn discard_good(d: &Dev) -> Result<(), E> {
    d.flush()?;
    Ok(())
}
pub fn discard_bad(d: &Dev) {
    let _ = d.flush();
}
pub fn discard_ok_bad(d: &Dev) {
    d.flush().ok();
}
pub fn discard_checked_good(d: &Dev) -> bool {
    d.flush().is_ok()
}

// ---- P4 HELD-LOCK
pub fn held_good(d: &Dev) {
    let g = d.lock.lock().unwrap();
    d.mutate();
    drop(g);
}
pub fn held_bad(d: &Dev) {
    let g = d.lock.lock().unwrap();
    drop(g);
    d.mutate();
}
pub fn held_branch_bad(d: &Dev, c: bool) {
    let g = d.lock.lock().unwrap();
    if c {
        drop(g);
    }
    d.mutate();
}
pub fn held_temp_bad(d: &Dev) {
    if *d.lock.lock().unwrap() > 0 {
        d.mutate();
    }
}

// ---- P5 ARG-FLOW
pub fn flow_good(d: &Dev) {
    let h = d.horizon();
    let h2 = h.min(7);
    d.free_until(h2);
}
pub fn flow_bad(d: &Dev) {
    let _h = d.horizon();
    d.free_until(7);
}

// ---- P3 WHO-MAY-CALL
pub fn allowed_caller(d: &Dev) {
    d.poison();
}
pub fn new_caller(d: &Dev) {
    let f = || d.poison();
    f();
}

// ---- P7 types
pub struct Guard;
pub struct Pages;
pub struct GoodHandle {
    pub pages: Pages,
    pub guard: std::sync::Arc<Guard>,
}
pub struct BadOrderHandle {
    pub guard: std::sync::Arc<Guard>,
    pub pages: Pages,
}
pub struct NoGuardHandle {
    pub pages: Pages,
}

// ---- P8 tag maps
pub enum Tag {
    A,
    B,
    C,
}
impl Tag {
    pub fn to_byte(&self) -> u8 {
        match self {
            Tag::A => 1,
            Tag::B => 2,
            Tag::C => 9,
        }
    }
    pub fn from_byte(v: u8) -> Tag {
        match v {
            1 => Tag::A,
            2 => Tag::B,
            _ => unreachable!(),
        }
    }
}
pub const MAGIC: [u8; 3] = [1, 2, 3];
pub const OFFSET: usize = 4 + 8;
pub const NAME: &str = "fixture_table";

// ---- index-set coverage of a child loop (full-range rule)
pub struct Br {
    pub n: usize,
}
impl Br {
    #[inline(never)]
    pub fn count_children(&self) -> usize {
        self.n
    }
    #[inline(never)]
    pub fn child_page(&self, i: usize) -> Option<u64> {
        Some(i as u64)
    }
}
pub fn walk_rev_good(b: &Br, out: &mut Vec<u64>) {
    for child in (0..b.count_children()).rev() {
        out.push(b.child_page(child).unwrap());
    }
}
pub fn walk_arith_good(b: &Br, out: &mut Vec<u64>) {
    let n = b.count_children();
    for child in 0..n {
        out.push(b.child_page(n - 1 - child).unwrap());
    }
}
pub fn walk_inclusive_good(b: &Br, out: &mut Vec<u64>) {
    let n = b.count_children();
    for child in 1..=n {
        out.push(b.child_page(n - child).unwrap());
    }
}
pub fn walk_skips_zero_bad(b: &Br, out: &mut Vec<u64>) {
    let n = b.count_children();
    for child in 1..n {
        out.push(b.child_page(n - child).unwrap());
    }
}
pub fn walk_skip_adaptor_bad(b: &Br, out: &mut Vec<u64>) {
    for child in (0..b.count_children()).skip(1) {
        out.push(b.child_page(child).unwrap());
    }
}
pub fn walk_short_bad(b: &Br, out: &mut Vec<u64>) {
    for child in 0..b.count_children() - 1 {
        out.push(b.child_page(child).unwrap());
    }
}
