// harness: exists only so that cargo compiles redb 3.0.0 (from the offline registry cache) through the fact driver
